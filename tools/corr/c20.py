"""C20: pickle / copy / deepcopy / tofile-fromfile / buffer import and export of dense and sparse matrices on the real
implementation, judged by direct comparison (round trips are identities) and, for strided buffer import, by the Lean model."""
import os, sys, random, pickle, copy, io, array, tempfile
from fractions import Fraction
import vlib

LEAN_TARGETS = ['CvxVerif.Props.C20']
MODEL_FILES = ['CvxVerif.Model.Serial', 'CvxVerif.Model.Dense', 'CvxVerif.Model.Sparse']
LEVEL = 'proof'
TRUSTED = ['model lean/CvxVerif/Model/Serial.lean of __reduce__ states, strided buffer import and export counting; round trips are judged '
           'directly on the implementation (identity of typecode, size, values and, for sparse matrices, the CCS arrays)']
ASSUMPTIONS = ['strided sources are limited to what the standard library can export: contiguous multi-dimensional casts and one-dimensional '
               'slices with positive / negative steps (NumPy is not installed in the interpreter that runs cvxopt)',
               'the byte layout of doubles in tofile/fromfile is taken as an injective encoding']

def frs(x):
    f = Fraction(x); return str(f.numerator) if f.denominator == 1 else '%d/%d' % (f.numerator, f.denominator)
def ntok(v):
    if isinstance(v, complex): return frs(v.real) if v.imag == 0 else '%s:%s' % (frs(v.real), frs(v.imag))
    return frs(v)

def same_dense(A, B): return A.typecode == B.typecode and A.size == B.size and list(A) == list(B)
def same_sparse(A, B):
    return A.typecode == B.typecode and A.size == B.size and [list(x) for x in A.CCS] == [list(x) for x in B.CCS]

def correspond(ctx):
    cvxopt = vlib.use_build(ctx.build)
    from cvxopt import matrix, spmatrix, sparse
    rng = random.Random(ctx.seed * 17 + 20)
    n = 200 if ctx.quick() else 8000
    evals = 0
    distinct = set()
    lines, expect, meta = [], [], []
    def val(tc):
        return rng.randint(-9, 9) if tc == 'i' else rng.randint(-8, 8) / 2.0 if tc == 'd' else complex(rng.randint(-3, 3), rng.randint(-3, 3) / 2.0)
    for it in range(n):
        tc = rng.choice('idz'); m, k = rng.randint(0, 4), rng.randint(0, 4)
        A = matrix([val(tc) for _ in range(m * k)], (m, k), tc)
        case = {'kind': 'dense', 'tc': tc, 'size': [m, k], 'values': [str(v) for v in A]}
        # pickle, all protocols
        for proto in range(0, pickle.HIGHEST_PROTOCOL + 1):
            B = pickle.loads(pickle.dumps(A, proto)); evals += 1
            if not same_dense(A, B): ctx.violation('c20:pickle-dense', 'pickle protocol %d does not reproduce a dense %s matrix %dx%d' % (proto, tc, m, k), case)
        for nm, f in (('copy', copy.copy), ('deepcopy', copy.deepcopy), ('matrix(x)', matrix), ('+x', lambda X: +X), ('slice', lambda X: X[:, :])):
            B = f(A); evals += 1
            if not same_dense(A, B): ctx.violation('c20:%s-dense' % nm, '%s does not reproduce a dense matrix' % nm, case)
            if B is A: ctx.violation('c20:%s-aliases' % nm, '%s returns the same object' % nm, case)
            if m * k:
                old = A[0]; B[0] = val(tc) + 1 if tc != 'z' else val(tc) + 1j
                if A[0] != old: ctx.violation('c20:%s-shares-storage' % nm, '%s shares storage with its source' % nm, case)
        # matrix(x, size, tc) with the typecode given explicitly (same or wider) and / or a new shape: always an independent copy, x keeps its shape
        wider = {'i': 'idz', 'd': 'dz', 'z': 'z'}[tc]
        for tc2 in wider:
            shp = rng.choice([(m, k), (m * k, 1), (1, m * k), (k, m)])
            for nm, f in (("matrix(x, tc='%s')" % tc2, lambda X: matrix(X, tc=tc2)), ("matrix(x, %r, '%s')" % (shp, tc2), lambda X: matrix(X, shp, tc2))):
                views = [memoryview(A)] if tc == 'd' and m * k and rng.random() < 0.3 else []
                B = f(A); evals += 1
                want_size = (m, k) if 'tc=' in nm else shp
                if A.size != (m, k): ctx.violation('c20:ctor-changes-source', '%s changed the size of x from %r to %r' % (nm, (m, k), A.size), case); A.size = (m, k)
                if B is A: ctx.violation('c20:ctor-aliases', '%s returns x itself' % nm, case); continue
                if B.typecode != tc2 or B.size != want_size or [complex(v) for v in B] != [complex(v) for v in A]:
                    ctx.violation('c20:ctor-copy', '%s does not reproduce the values of x (typecode %s, size %r)' % (nm, B.typecode, B.size), case)
                if m * k:
                    old = A[0]; B[0] = B[0] + 1
                    if A[0] != old: ctx.violation('c20:ctor-shares-storage', '%s shares storage with x' % nm, case); A[0] = old
                for v in views: v.release()
        # tofile / fromfile
        if tc in 'dz' or tc == 'i':
            with tempfile.TemporaryFile() as f:
                A.tofile(f); f.seek(0)
                B = matrix(0, (m, k), tc) if tc == 'i' else matrix(0.0, (m, k), tc)
                B.fromfile(f); evals += 1
                if not same_dense(A, B): ctx.violation('c20:file-dense', 'tofile/fromfile does not reproduce a dense %s matrix' % tc, case)
        # buffer export: memoryview aliases the matrix, in-place ops and assignment alias, release in random order
        if tc == 'd' and m * k:
            views = [memoryview(A) for _ in range(rng.randint(1, 3))]
            evals += 1
            i = rng.randrange(m * k); r_, c_ = i % m, i // m
            A[i] = A[i] + 1
            if views[0].shape != (m, k) or views[0][r_, c_] != A[i]:
                ctx.violation('c20:export-alias', 'a memoryview of a matrix does not see a later write to the matrix', case)
            views[-1][r_, c_] = 42.5
            if A[i] != 42.5: ctx.violation('c20:export-alias', 'a write through a memoryview is not seen by the matrix', case)
            rng.shuffle(views)
            for v in views: v.release()
            B = A; B *= 2
            if B is not A or A[i] != 85.0: ctx.violation('c20:inplace-alias', 'in-place operator did not update the aliased matrix', case)
        # in-place operators under a live view: the view keeps seeing the matrix (the buffer is never replaced while it is exported), for
        # every operator and every operand type; an operator that would change the typecode must be refused
        if m * k and tc != 'z':       # (memoryview cannot index the complex format)
            C = matrix(A); before_tc = C.typecode
            view = memoryview(C)
            opname = rng.choice(['+=', '-=', '*=', '/=', '%='])
            operand = rng.choice([2, 2.5, 0.5, 3, (1 + 1j)])
            try:
                if opname == '+=': C += operand
                elif opname == '-=': C -= operand
                elif opname == '*=': C *= operand
                elif opname == '/=': C /= operand
                else: C %= operand
                res = 'ok'
            except (TypeError, NotImplementedError, ArithmeticError, ValueError) as e: res = type(e).__name__
            evals += 1
            flat = [view[i % m, i // m] for i in range(m * k)]
            if C.typecode != before_tc:
                ctx.violation('c20:inplace-changes-typecode', 'in-place %s %r changed the typecode of a %s matrix to %s while a memoryview was exported' % (opname, operand, before_tc, C.typecode),
                              dict(case, op=opname, operand=repr(operand)))
            elif flat != list(C):
                ctx.violation('c20:export-alias-inplace', 'after in-place %s %r (%s) an exported memoryview no longer shows the contents of the matrix' % (opname, operand, res),
                              dict(case, op=opname, operand=repr(operand)))
            view.release()
        # sequences of export, mutation (writes, in-place reshape through .size) and release: EVERY export - also one taken while older views are
        # still held - reproduces the matrix as it is at that moment (shape, strides, format, item size, values); older views keep their geometry
        if m * k:
            E = matrix(A); held = []
            for step in range(rng.randint(3, 7)):
                act = rng.choice(['export', 'export', 'resize', 'write', 'release'])
                if act == 'resize':
                    tot = E.size[0] * E.size[1]
                    divs = [d for d in range(1, tot + 1) if tot % d == 0]
                    d0 = rng.choice(divs); E.size = (d0, tot // d0)
                elif act == 'write':
                    E[rng.randrange(len(E))] = val(tc)
                elif act == 'release' and held:
                    held.pop(rng.randrange(len(held)))[0].release()
                elif act == 'export':
                    v = memoryview(E); evals += 1
                    r0, c0 = E.size
                    isz = {'i': 8, 'd': 8, 'z': 16}[tc]
                    want = (v.shape == (r0, c0) and v.strides == (isz, isz * r0) and v.itemsize == isz and v.ndim == 2 and v.nbytes == isz * r0 * c0)
                    if want and tc != 'z': want = [v[i % r0, i // r0] for i in range(r0 * c0)] == list(E)
                    if want and matrix(v).size != E.size: want = False
                    if not want:
                        ctx.violation('c20:export-geometry', 'a memoryview taken while %d older view(s) are held does not reproduce the matrix: size %s, view shape %s strides %s'
                                      % (len(held), E.size, v.shape, v.strides), dict(case, held=len(held), step=step))
                        v.release(); break
                    held.append((v, (r0, c0)))
                for hv, shp in held:
                    if hv.shape != shp:
                        ctx.violation('c20:export-geometry', 'an older memoryview changed its shape from %s to %s after the matrix was resized' % (shp, hv.shape), dict(case, step=step)); break
            for hv, _ in held: hv.release()
        distinct.add(('dense', tc, m, k))
        # buffer import: contiguous multi-dimensional casts and strided one-dimensional slices
        if rng.random() < 0.6:
            src_tc, fmt = rng.choice([('d', 'd'), ('i', 'l'), ('i', 'i'), ('d', 'f')])
            cnt = rng.randint(0, 12)
            vals = [rng.randint(-9, 9) if src_tc == 'i' else rng.randint(-8, 8) / 2.0 for _ in range(cnt)]
            arr = array.array(fmt, vals)
            mv = memoryview(arr)
            kind = rng.choice(['flat', 'slice', 'c2d', 'c2d-rows', 'f2d-rows', 'f2d-rows'])
            try:
                if kind == 'f2d-rows':
                    # the column-major 2-D buffer a matrix exports, restricted to a range of rows (gaps between the columns)
                    m0, n0 = rng.randint(1, 4), rng.randint(1, 4)
                    src_tc = rng.choice('di'); fmt = 'd' if src_tc == 'd' else 'l'
                    vals = [rng.randint(-9, 9) if src_tc == 'i' else rng.randint(-8, 8) / 2.0 for _ in range(m0 * n0)]
                    Asrc = matrix(vals, (m0, n0), src_tc)
                    a = rng.randrange(m0); st = rng.choice([1, 1, 2, -1]); b = rng.choice([None, rng.randint(0, m0)])
                    mv2 = memoryview(Asrc)[a:b:st]
                    mm, nn = mv2.shape; s0, s1, base = st, m0, a
                    cnt = m0 * n0
                elif kind == 'c2d-rows' and cnt:
                    divs = [d for d in range(1, cnt + 1) if cnt % d == 0]
                    m0 = rng.choice(divs); n0 = cnt // m0
                    a = rng.randrange(m0); st = rng.choice([1, 2, -1]); b = rng.choice([None, rng.randint(0, m0)])
                    mv2 = mv.cast('B').cast(fmt, shape=(m0, n0))[a:b:st]
                    mm, nn = mv2.shape; s0, s1, base = st * n0, 1, a * n0
                    kind_ok = True
                elif kind == 'c2d-rows': kind = 'flat'
                if kind in ('f2d-rows', 'c2d-rows'): pass
                elif kind == 'slice' and cnt:
                    st = rng.choice([1, 2, 3, -1, -2]); a = rng.randrange(cnt)
                    mv2 = mv[a::st]
                    base = a; s0 = st; mm, nn, s1 = len(mv2), 1, 0
                elif kind == 'c2d' and cnt:
                    divs = [d for d in range(1, cnt + 1) if cnt % d == 0]
                    mm = rng.choice(divs); nn = cnt // mm
                    mv2 = mv.cast('B').cast(fmt, shape=(mm, nn)); base = 0; s0, s1 = nn, 1
                else:
                    mv2 = mv; base = 0; s0 = 1; mm, nn, s1 = cnt, 1, 0
                B = matrix(mv2); obs = 'mat %s %d %d %s' % (B.typecode, B.size[0], B.size[1], ','.join(ntok(v) for v in B) or '-')
            except Exception as e:
                obs = type(e).__name__
            evals += 1
            if not obs.endswith('Error'):
                want_tc = 'i' if fmt in 'il' else 'd'
                lines.append('import %s %d %d %d %d %d %s' % (want_tc, mm, nn, s0, s1, base, ','.join(ntok(v) for v in vals) or '-'))
                expect.append(obs); meta.append({'format': fmt, 'kind': kind, 'values': vals})
            distinct.add(('import', fmt, kind))
        # integer buffers with entries beyond 32 bits, imported with every target typecode (conversion on import reads the full element width)
        if it % 4 == 1:
            rb = random.Random(ctx.seed * 30011 + it)
            fmtb = rb.choice(['l', 'l', 'q', 'i'])
            big = [2**31, -2**31 - 1, 2**32 + 5, 2**40, -2**45 - 3, 2**52 + 1, 7, -3] if fmtb != 'i' else [2**31 - 1, -2**31, 65536 * 3, -70000, 7, -3]
            cntb = rb.randint(1, 6); valsb = [rb.choice(big) for _ in range(cntb)]
            arrb = array.array(fmtb, valsb)
            for tc2 in (None, 'i', 'd', 'z'):
                srcb = memoryview(arrb)
                if cntb % 2 == 0 and rb.random() < 0.4: srcb = srcb.cast('B').cast(fmtb, shape=(2, cntb // 2))
                evals += 1
                try: Bb = matrix(srcb) if tc2 is None else matrix(srcb, tc=tc2)
                except TypeError: continue          # a refusal is acceptable, a wrong value is not
                flat = valsb if srcb.ndim == 1 else [valsb[i_ * (cntb // 2) + j_] for j_ in range(cntb // 2) for i_ in range(2)]
                wantb = [complex(v) if Bb.typecode == 'z' else (float(v) if Bb.typecode == 'd' else v) for v in flat]
                if list(Bb) != wantb:
                    ctx.violation('c20:buffer-import-wide-integers:%s->%s' % (fmtb, Bb.typecode), "matrix(<buffer of format '%s'>%s) gives %r for the entries %r"
                                  % (fmtb, '' if tc2 is None else ", tc='%s'" % tc2, list(Bb), flat), {'format': fmtb, 'values': valsb, 'tc': tc2})
        # buffer import with an explicit byte order / other element formats (ctypes exporters: '<d', '>d', '>i', '<f', '<q', ...): the matrix
        # either reproduces the exported values exactly or refuses the buffer (TypeError); a wrong value is never acceptable
        if rng.random() < 0.35:
            import ctypes
            base_t = rng.choice([ctypes.c_double, ctypes.c_int, ctypes.c_float, ctypes.c_long, ctypes.c_short])
            order = rng.choice(['native', 'be', 'le'])
            t = base_t if order == 'native' else (base_t.__ctype_be__ if order == 'be' else base_t.__ctype_le__)
            cnt = rng.randint(1, 6); isf = base_t in (ctypes.c_double, ctypes.c_float)
            vals = [(rng.randint(-8, 8) / 2.0 if isf else rng.randint(-9, 9)) for _ in range(cnt)]
            two_d = rng.random() < 0.3 and cnt % 2 == 0
            src = ((t * (cnt // 2)) * 2)(*[tuple(vals[:cnt // 2]), tuple(vals[cnt // 2:])]) if two_d else (t * cnt)(*vals)
            fmt_ = memoryview(src).format
            evals += 1; distinct.add(('import-format', fmt_))
            try:
                B = matrix(src)
                got = [float(v) for v in B]
                want = ([vals[(q % 2) * (cnt // 2) + q // 2] for q in range(cnt)] if two_d else vals)          # a C-ordered 2 x k source, read column by column
                if got != [float(v) for v in want]:
                    ctx.violation('c20:buffer-import-values', 'matrix(buffer with format %r) has the values %r, the exporter holds %r' % (fmt_, got, want),
                                  {'format': fmt_, 'values': vals, 'two_d': two_d})
            except TypeError: pass
            except Exception as e:
                ctx.violation('c20:buffer-import-raises:' + type(e).__name__, 'matrix(buffer with format %r) raised %s: %s' % (fmt_, type(e).__name__, e), {'format': fmt_, 'values': vals})
        # sparse
        sm, sk = rng.randint(0, 4), rng.randint(0, 4)
        stc = rng.choice('dz')
        cnt = rng.randint(0, 6) if sm * sk else 0
        trip = [(rng.randrange(sm), rng.randrange(sk), rng.choice([0.0, 1.0, -2.0, 0.5]) if stc == 'd' else complex(rng.randint(-2, 2), rng.randint(0, 1))) for _ in range(cnt)]
        S = spmatrix([t[2] for t in trip], [t[0] for t in trip], [t[1] for t in trip], (sm, sk), stc)
        scase = {'kind': 'sparse', 'tc': stc, 'size': [sm, sk], 'triplets': [str(t) for t in trip]}
        for proto in range(0, pickle.HIGHEST_PROTOCOL + 1):
            T = pickle.loads(pickle.dumps(S, proto)); evals += 1
            if not same_sparse(S, T): ctx.violation('c20:pickle-sparse', 'pickle protocol %d does not reproduce a sparse matrix structurally (explicit zeros included)' % proto, scase)
        for nm, f in (('copy', copy.copy), ('deepcopy', copy.deepcopy), ('spmatrix(x)', lambda X: spmatrix(X.V, X.I, X.J, X.size, X.typecode)), ('+x', lambda X: +X)):
            T = f(S); evals += 1
            if not same_sparse(S, T): ctx.violation('c20:%s-sparse' % nm, '%s does not reproduce a sparse matrix structurally' % nm, scase)
            if T is S: ctx.violation('c20:%s-aliases' % nm, '%s returns the same object' % nm, scase)
        # in-place operators on a sparse matrix update the object itself: every other reference sees the result (also when nothing is stored yet)
        if sm * sk:
            for nz in (0, rng.randint(1, 3)):
                tr2 = [(rng.randrange(sm), rng.randrange(sk), 1.0 + rng.randint(0, 3)) for _ in range(nz)]
                S0 = spmatrix([t[2] for t in tr2], [t[0] for t in tr2], [t[1] for t in tr2], (sm, sk), 'd')
                tb = [(rng.randrange(sm), rng.randrange(sk), float(rng.randint(1, 4))) for _ in range(rng.randint(1, 3))]
                Bs = spmatrix([t[2] for t in tb], [t[0] for t in tb], [t[1] for t in tb], (sm, sk), 'd')
                for opn in ('+=', '-=', '*='):
                    S_ = +S0; T_ = S_
                    want = {'+=': matrix(S0) + matrix(Bs), '-=': matrix(S0) - matrix(Bs), '*=': matrix(S0) * 3.0}[opn]
                    try:
                        if opn == '+=': S_ += Bs
                        elif opn == '-=': S_ -= Bs
                        else: S_ *= 3.0
                    except (TypeError, ValueError): continue
                    evals += 1
                    if S_ is not T_ or list(matrix(T_)) != list(want):
                        ctx.violation('c20:sparse-inplace-alias', 'sparse %s on a matrix with %d stored entries does not update the aliased object (S is T: %s)' % (opn, nz, S_ is T_),
                                      dict(scase, op=opn, stored=nz))
        distinct.add(('sparse', stc, sm, sk, cnt))
    out = vlib.drive('C20', lines) if lines else []
    dis = 0
    for l, e, o, mt in zip(lines, expect, out, meta):
        if e != o:
            dis += 1
            if dis <= 3: ctx.violation('c20:buffer-import:%s' % mt['kind'], 'matrix(buffer) gives `%s`, strided-import model `%s`' % (e, o), dict(mt, line=l))
    ctx.cov.update({'evaluations': evals, 'distinct_nontrivial': len(distinct),
                    'rule': 'dense matrices (i/d/z, 0..4 x 0..4) and sparse matrices (d/z, duplicates, explicit zeros): pickle protocols 0-%d, copy, deepcopy, '
                            'constructor copy, +x, slicing, tofile/fromfile, memoryview export with writes in both directions and random release order, '
                            'in-place aliasing; buffer import from array.array (formats d, l, i, f) flat / strided slices / C-contiguous 2-D casts compared '
                            'with the Lean strided-import model' % pickle.HIGHEST_PROTOCOL,
                    'protocol_lines_compared': len(lines), 'disagreements_checked': dis})
    ctx.samples += lines[:3] + ['pickle/copy/deepcopy/file/export round trips are direct identity checks']

def search(ctx, why): return
def replay(ctx, payload): correspond(ctx)
