/-!
Reference model of cvxopt dense matrices (`src/C/dense.c`): column-major storage, index resolution
(`CWRAP/OUT_RNG`, `PySlice_GetIndicesEx`, `create_indexlist`), one- and two-argument indexing and indexed
assignment, the arithmetic operators with their type-promotion / scalar / 1×1 / in-place rules, transposes and
size reassignment.  Index arguments are unbounded integers.  Core Lean only.
-/
namespace CvxVerif.Dense

inductive TC where | i | d | z
deriving DecidableEq, Repr

def TC.id : TC → Nat
  | .i => 0 | .d => 1 | .z => 2
def TC.ofId (n : Nat) : TC := if n == 0 then .i else if n == 1 then .d else .z
/-- type promotion `MAX(id_self, id_other)` -/
def TC.join (a b : TC) : TC := if a.id ≤ b.id then b else a

/-- entries as Gaussian rationals; an 'i' or 'd' entry has `im = 0` -/
structure Num where
  re : Rat
  im : Rat
deriving DecidableEq, Repr

def Num.add (a b : Num) : Num := ⟨a.re + b.re, a.im + b.im⟩
def Num.sub (a b : Num) : Num := ⟨a.re - b.re, a.im - b.im⟩
def Num.neg (a : Num) : Num := ⟨-a.re, -a.im⟩
def Num.mul (a b : Num) : Num := ⟨a.re * b.re - a.im * b.im, a.re * b.im + a.im * b.re⟩
def Num.conj (a : Num) : Num := ⟨a.re, -a.im⟩
def Num.zero : Num := ⟨0, 0⟩
def Num.isZero (a : Num) : Bool := a.re == 0 && a.im == 0
/-- reciprocal of a non-zero Gaussian rational -/
def Num.inv (a : Num) : Num := let n := a.re * a.re + a.im * a.im; ⟨a.re / n, -a.im / n⟩
def Num.div (a b : Num) : Num := a.mul b.inv
def Num.ofRat (r : Rat) : Num := ⟨r, 0⟩

structure Mat where
  nrows : Nat
  ncols : Nat
  tc : TC
  buf : List Num          -- column major, `buf.length = nrows * ncols`
deriving DecidableEq, Repr

def Mat.lgt (A : Mat) : Nat := A.nrows * A.ncols
def Mat.WF (A : Mat) : Prop := A.buf.length = A.nrows * A.ncols

inductive Err where | index | type | value | notImpl | zeroDiv | arith
deriving DecidableEq, Repr

/-- `OUT_RNG(i, dim)` -/
def outRng (i : Int) (dim : Nat) : Bool := decide (i < -(dim : Int)) || decide (i ≥ (dim : Int))
/-- `CWRAP(i, dim)` -/
def cwrap (i : Int) (dim : Nat) : Nat := if i ≥ 0 then i.toNat else ((dim : Int) + i).toNat

/-- range check followed by wrap-around -/
def normIdx (dim : Nat) (i : Int) : Option Nat := if outRng i dim then none else some (cwrap i dim)

/-- `PySlice_AdjustIndices` for one bound -/
def adjustBound (n : Int) (step : Int) (v : Int) : Int :=
  if v < 0 then
    let v := v + n
    if v < 0 then (if step < 0 then -1 else 0) else v
  else if v ≥ n then (if step < 0 then n - 1 else n)
  else v

def sliceStart (n step : Int) (a : Option Int) : Int :=
  match a with
  | some v => adjustBound n step v
  | none => if step < 0 then n - 1 else 0

def sliceStop (n step : Int) (b : Option Int) : Int :=
  match b with
  | some v => adjustBound n step v
  | none => if step < 0 then -1 else n

/-- `PySlice_AdjustIndices`: the slice length -/
def sliceLen (start stop step : Int) : Int :=
  if step < 0 then (if stop < start then (start - stop - 1) / (-step) + 1 else 0)
  else (if start < stop then (stop - start - 1) / step + 1 else 0)

/-- `PySlice_GetIndicesEx(slice(a, b, c), n)`: `(start, step, length)`; `none` for step 0 (ValueError) -/
def sliceIndices (n : Nat) (a b c : Option Int) : Option (Int × Int × Nat) :=
  let step := c.getD 1
  if step == 0 then none else
  some (sliceStart n step a, step, (sliceLen (sliceStart n step a) (sliceStop n step b) step).toNat)

def sliceList (start step : Int) (len : Nat) : List Int := (List.range len).map fun (t : Nat) => start + (t : Int) * step

inductive Idx where
  | int (i : Int)
  | slice (a b c : Option Int)
  | list (l : List Int)          -- Python list of ints
  | imat (l : List Int)          -- integer matrix used as index list
  | dmat                         -- a non-integer matrix ("not an integer index list")
  | other                        -- any other object
deriving Repr

/-- `create_indexlist(dim, A)`: the raw (unwrapped) indices, range-checked -/
def indexList (dim : Nat) : Idx → Except Err (List Int)
  | .int i => if outRng i dim then .error .index else .ok [i]
  | .slice a b c =>
    match sliceIndices dim a b c with
    | none => .error .value
    | some (st, sp, len) => .ok (sliceList st sp len)
  | .list l => if l.any (fun i => outRng i dim) then .error .index else .ok l
  | .imat l => if l.any (fun i => outRng i dim) then .error .index else .ok l
  | .dmat => .error .type
  | .other => .error .type

inductive Res where
  | num (tc : TC) (v : Num)
  | mat (A : Mat)
  | err (e : Err)
deriving Repr, DecidableEq

/-- single-argument indexing `A[I]` -/
def getitem1 (A : Mat) (I : Idx) : Res :=
  match I with
  | .int i => match normIdx A.lgt i with
    | none => .err .index
    | some k => .num A.tc (A.buf.getD k Num.zero)
  | I => match indexList A.lgt I with
    | .error e => .err e
    | .ok il => .mat ⟨il.length, 1, A.tc, il.map fun i => A.buf.getD (cwrap i A.lgt) Num.zero⟩

/-- two-argument indexing `A[I, J]` -/
def getitem2 (A : Mat) (I J : Idx) : Res :=
  match I, J with
  | .int i, .int j =>
    if outRng i A.nrows || outRng j A.ncols then .err .index
    else .num A.tc (A.buf.getD (cwrap i A.nrows + cwrap j A.ncols * A.nrows) Num.zero)
  | I, J =>
    match indexList A.nrows I with
    | .error e => .err e
    | .ok il =>
      match indexList A.ncols J with
      | .error e => .err e
      | .ok jl =>
        .mat ⟨il.length, jl.length, A.tc,
          jl.flatMap fun j => il.map fun i => A.buf.getD (cwrap i A.nrows + cwrap j A.ncols * A.nrows) Num.zero⟩

/-- right-hand side of an indexed assignment -/
inductive Val where
  | num (id : Nat) (v : Num)      -- Python int / float / complex
  | mat (B : Mat)
deriving Repr

def Val.id : Val → Nat
  | .num i _ => i
  | .mat B => B.tc.id

def writeAll (buf : List Num) (pos : List Nat) (vals : List Num) : List Num :=
  (pos.zip vals).foldl (fun b pv => b.set pv.1 pv.2) buf

/-- the same loop when the right-hand side *is* the matrix being assigned to (`A[I] = A`): the k-th value is read
from the buffer as already modified by the previous writes -/
def writeAllLive (buf : List Num) (pos : List Nat) : List Num :=
  (pos.zip (List.range pos.length)).foldl (fun b pk => b.set pk.1 (b.getD pk.2 Num.zero)) buf

/-- `A[I] = val` -/
def setitem1 (A : Mat) (I : Idx) (val : Val) (aliased : Bool := false) : Except Err Mat :=
  if val.id > A.tc.id then .error .type else
  match indexList A.lgt I with
  | .error e => .error e
  | .ok il =>
    let pos := il.map fun i => cwrap i A.lgt
    match val with
    | .num _ v => .ok { A with buf := writeAll A.buf pos (pos.map fun _ => v) }
    | .mat B =>
      if B.lgt == 1 then .ok { A with buf := writeAll A.buf pos (pos.map fun _ => B.buf.getD 0 Num.zero) }
      else if B.lgt != il.length || B.ncols > 1 then .error .type
      else .ok { A with buf := if aliased then writeAllLive A.buf pos else writeAll A.buf pos B.buf }

/-- `A[I, J] = val` -/
def setitem2 (A : Mat) (I J : Idx) (val : Val) (aliased : Bool := false) : Except Err Mat :=
  if val.id > A.tc.id then .error .type else
  match indexList A.nrows I with
  | .error e => .error e
  | .ok il =>
    match indexList A.ncols J with
    | .error e => .error e
    | .ok jl =>
      let pos := jl.flatMap fun j => il.map fun i => cwrap i A.nrows + cwrap j A.ncols * A.nrows
      match val with
      | .num _ v => .ok { A with buf := writeAll A.buf pos (pos.map fun _ => v) }
      | .mat B =>
        if B.lgt == 1 then .ok { A with buf := writeAll A.buf pos (pos.map fun _ => B.buf.getD 0 Num.zero) }
        else if il.length != B.nrows || jl.length != B.ncols then .error .type
        else .ok { A with buf := if aliased then writeAllLive A.buf pos else writeAll A.buf pos B.buf }

/-! ### arithmetic -/

inductive Opd where
  | num (id : Nat) (v : Num)
  | mat (A : Mat)
deriving Repr

def Opd.id : Opd → Nat
  | .num i _ => i
  | .mat A => A.tc.id
def Opd.isScalar : Opd → Bool
  | .num _ _ => true
  | .mat A => A.lgt == 1
def Opd.scalarVal : Opd → Num
  | .num _ v => v
  | .mat A => A.buf.getD 0 Num.zero
def Opd.isMat : Opd → Bool
  | .mat _ => true
  | _ => false

inductive BinOp where | add | sub | mul
deriving DecidableEq, Repr

def matMul (A B : Mat) (tc : TC) : Mat :=
  ⟨A.nrows, B.ncols, tc,
    (List.range B.ncols).flatMap fun j => (List.range A.nrows).map fun i =>
      (List.range A.ncols).foldl (fun acc k =>
        acc.add ((A.buf.getD (i + k * A.nrows) Num.zero).mul (B.buf.getD (k + j * B.nrows) Num.zero))) Num.zero⟩

/-- `A op B` (not in place); at least one operand is a matrix -/
def binop (op : BinOp) (x y : Opd) : Except Err Mat :=
  let tc := TC.ofId (max x.id y.id)
  let f : Num → Num → Num := match op with
    | .add => Num.add | .sub => Num.sub | .mul => Num.mul
  match x, y with
  | .num _ _, .num _ _ => .error .notImpl
  | x, y =>
    if x.isScalar then
      match y with
      | .mat B => .ok ⟨B.nrows, B.ncols, tc, B.buf.map fun b => f x.scalarVal b⟩
      | .num _ v => match x with      -- 1×1 matrix op number
        | .mat A => .ok ⟨A.nrows, A.ncols, tc, A.buf.map fun a => f a v⟩
        | _ => .error .notImpl
    else if y.isScalar then
      match x with
      | .mat A => .ok ⟨A.nrows, A.ncols, tc, A.buf.map fun a => f a y.scalarVal⟩
      | _ => .error .notImpl
    else
      match x, y with
      | .mat A, .mat B =>
        match op with
        | .mul => if A.ncols != B.nrows then .error .type else .ok (matMul A B tc)
        | _ =>
          if A.nrows != B.nrows || A.ncols != B.ncols then .error .type
          else .ok ⟨A.nrows, A.ncols, tc, List.zipWith f A.buf B.buf⟩
      | _, _ => .error .notImpl

/-- `A op= y`: `(result, inPlace)`.  Allowed only when the type does not change.  The result is written into `A`
(`inPlace = true`) except in one corner of `matrix_mul_generic`: when neither operand is a scalar and the in-place
guard does not fire (only possible when `A` has no entries), the ordinary matrix product is returned as a new object. -/
def ibinop (op : BinOp) (A : Mat) (y : Opd) : Except Err (Mat × Bool) :=
  let id := max A.tc.id y.id
  let bad := id != A.tc.id || (A.lgt == 1 && y.isMat && !(y.isScalar)) ||
    (op == .mul && A.lgt > 1 && (match y with | .mat B => decide (B.lgt > 1) | _ => false))
  if bad then .error .type else
  let f : Num → Num → Num := match op with
    | .add => Num.add | .sub => Num.sub | .mul => Num.mul
  if A.lgt == 1 then
    -- self is 1×1: `other` is a number or a 1×1 matrix
    .ok ({ A with buf := A.buf.map fun a => f a y.scalarVal }, true)
  else if y.isScalar then .ok ({ A with buf := A.buf.map fun a => f a y.scalarVal }, true)
  else match y with
    | .mat B =>
      match op with
      | .mul => if A.ncols != B.nrows then .error .type else .ok (matMul A B A.tc, false)
      | _ =>
        if A.nrows != B.nrows || A.ncols != B.ncols then .error .type
        else .ok ({ A with buf := List.zipWith f A.buf B.buf }, true)
    | _ => .error .notImpl

def neg (A : Mat) : Mat := { A with buf := A.buf.map Num.neg }

/-- `A.T` / `A.trans()` -/
def trans (A : Mat) : Mat :=
  ⟨A.ncols, A.nrows, A.tc, (List.range A.nrows).flatMap fun i => (List.range A.ncols).map fun j =>
    A.buf.getD (i + j * A.nrows) Num.zero⟩
/-- `A.H` / `A.ctrans()` -/
def ctrans (A : Mat) : Mat := let T := trans A; { T with buf := T.buf.map Num.conj }

/-- `A.real()`: the real part as a real matrix; for integer and real matrices a copy -/
def real (A : Mat) : Mat := if A.tc = .z then { A with tc := .d, buf := A.buf.map fun a => ⟨a.re, 0⟩ } else A

/-- `A.imag()`: the imaginary part as a real matrix; for integer and real matrices a zero matrix of the same type -/
def imag (A : Mat) : Mat :=
  if A.tc = .z then { A with tc := .d, buf := A.buf.map fun a => ⟨a.im, 0⟩ } else { A with buf := A.buf.map fun _ => Num.zero }

/-- `A.size = (m, n)` -/
def reshape (A : Mat) (m n : Int) : Except Err Mat :=
  if m < 0 || n < 0 then .error .type
  else if m.toNat * n.toNat != A.lgt then .error .type
  else .ok { A with nrows := m.toNat, ncols := n.toNat }

/-! ### division, remainder, power, absolute value (`matrix_div_generic`, `matrix_rem_generic`, `matrix_pow`, `matrix_abs`) -/

/-- `x / y` (true division).  The divisor must be a number or a 1×1 matrix (anything else is `NotImplemented` on both sides, a
TypeError for the caller); the result is at least of type 'd'; a number divided by a 1×1 matrix gives a 1×1 matrix. -/
def divop (x y : Opd) : Except Err Mat :=
  if !y.isScalar then .error .type else
  let tc := TC.ofId (max 1 (max x.id y.id))
  if y.scalarVal.isZero then .error .zeroDiv else
  match x with
  | .num _ v => match y with
    | .mat _ => .ok ⟨1, 1, tc, [v.div y.scalarVal]⟩
    | .num _ _ => .error .notImpl
  | .mat A => .ok ⟨A.nrows, A.ncols, tc, A.buf.map fun a => a.div y.scalarVal⟩

/-- `A /= y`: allowed only when the type does not change (so never for an 'i' matrix) -/
def idivop (A : Mat) (y : Opd) : Except Err Mat :=
  if !y.isScalar then .error .type else
  if max 1 (max A.tc.id y.id) != A.tc.id then .error .type else
  if y.scalarVal.isZero then .error .zeroDiv else
  .ok { A with buf := A.buf.map fun a => a.div y.scalarVal }

/-- C remainder of integers (`%` truncates towards zero) -/
def iremNum (a n : Num) : Num := ⟨(Int.tmod a.re.num n.re.num : Int), 0⟩
/-- `a - floor(a/n)*n` -/
def dremNum (a n : Num) : Num := ⟨a.re - ((a.re / n.re).floor : Int) * n.re, 0⟩

/-- `x % y`: scalar divisor, no complex operands; integers use the C remainder, doubles `a - floor(a/n)*n` -/
def remop (x y : Opd) : Except Err Mat :=
  if !y.isScalar then .error .type else
  let id := max x.id y.id
  if id == 2 then .error .notImpl else
  if y.scalarVal.isZero then .error .zeroDiv else
  let f := if id == 0 then iremNum else dremNum
  match x with
  | .num _ v => match y with
    | .mat _ => .ok ⟨1, 1, TC.ofId id, [f v y.scalarVal]⟩
    | .num _ _ => .error .notImpl
  | .mat A => .ok ⟨A.nrows, A.ncols, TC.ofId id, A.buf.map fun a => f a y.scalarVal⟩

/-- `A %= y` -/
def iremop (A : Mat) (y : Opd) : Except Err Mat :=
  if !y.isScalar then .error .type else
  let id := max A.tc.id y.id
  if id == 2 then .error .notImpl else
  if id != A.tc.id then .error .type else
  if y.scalarVal.isZero then .error .zeroDiv else
  let f := if id == 0 then iremNum else dremNum
  .ok { A with buf := A.buf.map fun a => f a y.scalarVal }

def ratPow (x : Rat) (e : Int) : Rat := if e ≥ 0 then x ^ e.toNat else (1 / x) ^ (-e).toNat

/-- `A ** e` for a real matrix and an integral exponent given as a Python int (`eid = 0`) or float (`eid = 1`): the result is a 'd'
matrix; `0 ** negative` is a domain error (ValueError) -/
def powop (A : Mat) (e : Int) : Except Err Mat :=
  if A.tc = .z then .error .notImpl else
  if e < 0 && A.buf.any (fun a => a.re == 0) then .error .value else
  .ok { A with tc := .d, buf := A.buf.map fun a => ⟨ratPow a.re e, 0⟩ }

/-- exact rational square root, when there is one -/
def ratSqrt? (r : Rat) : Option Rat :=
  if r < 0 then none else
  let n := r.num.toNat; let d := r.den
  if Nat.sqrt n * Nat.sqrt n == n && Nat.sqrt d * Nat.sqrt d == d then some ((Nat.sqrt n : Rat) / (Nat.sqrt d : Rat)) else none

def ratAbs (r : Rat) : Rat := if r < 0 then -r else r

/-- `abs(A)`: same type for 'i' and 'd', the modulus as a 'd' matrix for 'z'; `none` when a modulus is irrational (outside the model) -/
def absop (A : Mat) : Option Mat :=
  if A.tc = .z then
    (A.buf.mapM fun a => ratSqrt? (a.re * a.re + a.im * a.im)).map fun l => { A with tc := .d, buf := l.map Num.ofRat }
  else some { A with buf := A.buf.map fun a => ⟨ratAbs a.re, 0⟩ }

/-- `bool(A)` -/
def nonzero (A : Mat) : Bool := A.buf.any fun a => !a.isZero

/-- the builtins `max(A)` / `min(A)` (iteration over the entries in storage order) -/
def bextreme (isMax : Bool) (A : Mat) : Res :=
  match A.buf with
  | [] => .err .value
  | a :: rest =>
    if A.tc = .z && !rest.isEmpty then .err .type
    else .num A.tc (rest.foldl (fun m b => if (if isMax then decide (b.re > m.re) else decide (b.re < m.re)) then b else m) a)

/-- the builtin `sum(A)`: starts from the Python int 0 -/
def bsum (A : Mat) : Res :=
  if A.buf.isEmpty then .num .i Num.zero else .num A.tc (A.buf.foldl Num.add Num.zero)

/-- `v in A` -/
def contains (A : Mat) (v : Num) : Bool := A.buf.any fun a => a == v

/-! ### elementwise functions of two arguments (`base.emul`, `ediv`, `emax`, `emin`, called by `cvxopt.mul`, `div`, `max`, `min`) -/

inductive ElemOp where | mul | div | max | min
deriving DecidableEq, Repr

def elemFn (op : ElemOp) (a b : Num) : Num :=
  match op with
  | .mul => a.mul b
  | .div => a.div b
  | .max => if a.re ≥ b.re then a else b
  | .min => if a.re ≤ b.re then a else b

/-- a number, or a matrix with exactly one entry, is broadcast -/
def elem (op : ElemOp) (x y : Opd) : Res :=
  let id0 := max x.id y.id
  if (op == .max || op == .min) && id0 == 2 then .err .type else
  let id := if op == .div then max 1 id0 else id0
  let tc := TC.ofId id
  let bothPlain := !x.isMat && !y.isMat
  if bothPlain then
    if op == .div && y.scalarVal.isZero then .err .arith else .num tc (elemFn op x.scalarVal y.scalarVal)
  else
    match x, y with
    | .mat A, .mat B =>
      if !x.isScalar && !y.isScalar then
        if A.nrows != B.nrows || A.ncols != B.ncols then .err .type
        else if op == .div && B.buf.any Num.isZero then .err .arith
        else .mat ⟨A.nrows, A.ncols, tc, List.zipWith (elemFn op) A.buf B.buf⟩
      else if !x.isScalar then
        if op == .div && y.scalarVal.isZero && A.lgt > 0 then .err .arith
        else .mat ⟨A.nrows, A.ncols, tc, A.buf.map fun a => elemFn op a y.scalarVal⟩
      else if !y.isScalar then
        if op == .div && B.buf.any Num.isZero then .err .arith
        else .mat ⟨B.nrows, B.ncols, tc, B.buf.map fun b => elemFn op x.scalarVal b⟩
      else
        if op == .div && y.scalarVal.isZero then .err .arith
        else .mat ⟨1, 1, tc, [elemFn op x.scalarVal y.scalarVal]⟩
    | .mat A, .num _ v =>
      if op == .div && v.isZero && A.lgt > 0 then .err .arith
      else .mat ⟨A.nrows, A.ncols, tc, A.buf.map fun a => elemFn op a v⟩
    | .num _ v, .mat B =>
      if op == .div && B.buf.any Num.isZero then .err .arith
      else .mat ⟨B.nrows, B.ncols, tc, B.buf.map fun b => elemFn op v b⟩
    | _, _ => .err .notImpl

/-- `matrix([[col0], [col1], ...])`: a list of columns of equal length -/
def fromCols (cols : List (List Num)) (ids : List Nat) (tc : Option TC) : Except Err Mat :=
  let maxid := ids.foldl max 0
  let t := match tc with | some t => t | none => TC.ofId maxid
  if maxid > t.id then .error .type else
  match cols with
  | [] => .ok ⟨0, 1, t, []⟩
  | c :: rest =>
    if rest.any (fun r => r.length != c.length) then .error .type
    else if c.length == 0 then .ok ⟨0, 0, t, []⟩          -- empty columns: the result of stacking nothing is 0×0
    else .ok ⟨c.length, cols.length, t, cols.flatten⟩

/-- `matrix(seq, (m, n), tc)` for a flat sequence of numbers with ids `ids` -/
def fromSeq (vals : List Num) (ids : List Nat) (size : Option (Int × Int)) (tc : Option TC) : Except Err Mat :=
  let maxid := ids.foldl max 0
  let t := match tc with | some t => t | none => TC.ofId maxid
  if maxid > t.id then .error .type else
  match size with
  | none => .ok ⟨vals.length, 1, t, vals⟩
  | some (m, n) =>
    if m < 0 || n < 0 then .error .type
    else if m.toNat * n.toNat != vals.length then .error .type
    else .ok ⟨m.toNat, n.toNat, t, vals⟩

end CvxVerif.Dense
