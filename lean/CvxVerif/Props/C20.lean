import CvxVerif.Model.Serial
import CvxVerif.Proofs.Sparse
import CvxVerif.Proofs.Dense
/-!
# C20 — matrices survive serialisation, copying and buffer exchange unchanged
-/
namespace CvxVerif.Serial
open CvxVerif.Dense CvxVerif.Sparse

/-- **Dense round trip**: rebuilding from the reduced state gives the same matrix, for every shape (empty included)
and typecode. -/
theorem C20_dense_roundtrip (A : Mat) : denseOfState (denseState A) = A := rfl

/-- inserting an entry that is greater than everything stored appends it -/
theorem insertAcc_append (e : Entry) (l : List Entry) (h : ∀ x ∈ l, x.lt e) : insertAcc e l = l ++ [e] := by
  induction l with
  | nil => rfl
  | cons x xs ih =>
    have hx := h x List.mem_cons_self
    unfold insertAcc
    have h1 : e.samePos x = false := by
      simp only [Entry.samePos, Bool.and_eq_false_iff, beq_eq_false_iff_ne]
      unfold Entry.lt at hx; omega
    have h2 : ¬ e.lt x := by unfold Entry.lt at hx ⊢; omega
    simp only [h1, Bool.false_eq_true, if_false, h2]
    rw [ih (fun y hy => h y (List.mem_cons_of_mem _ hy))]; rfl

theorem foldl_insert_sorted (pre l : List Entry) (h : Sorted (pre ++ l)) :
    l.foldl (fun acc e => insertAcc e acc) pre = pre ++ l := by
  induction l generalizing pre with
  | nil => simp
  | cons e es ih =>
    simp only [List.foldl_cons]
    have hlt : ∀ x ∈ pre, x.lt e := by
      unfold Sorted at h
      rw [List.pairwise_append] at h
      exact fun x hx => h.2.2 x hx e List.mem_cons_self
    rw [insertAcc_append e pre hlt]
    have : pre ++ [e] ++ es = pre ++ e :: es := by simp
    rw [ih (pre ++ [e]) (by rw [this]; exact h), this]

/-- **Sparse round trip is structural**: for a valid sparse matrix the triplet state rebuilds exactly the same
compressed-column structure, explicit zeros included (no duplicate is ever summed). -/
theorem C20_sparse_roundtrip (A : SpMat) (hA : A.Valid) : sparseOfState (sparseState A) = some A := by
  unfold sparseOfState sparseState fromTriplets
  simp only
  have hr : (A.ents.map fun e => (e.row, e.col, e.val)).any (fun t => decide (t.1 ≥ A.nrows) || decide (t.2.1 ≥ A.ncols)) = false := by
    rw [List.any_eq_false]
    intro t ht
    simp only [List.mem_map] at ht
    obtain ⟨e, he, rfl⟩ := ht
    have := hA.2 e he
    simp only [Bool.or_eq_true, decide_eq_true_eq, not_or]; omega
  simp only [hr, Bool.false_eq_true, if_false, Option.some.injEq]
  have key : ∀ (es l0 : List Entry),
      (es.map fun e => (e.row, e.col, e.val)).foldl (fun l t => insertAcc ⟨t.2.1, t.1, t.2.2⟩ l) l0 =
      es.foldl (fun l e => insertAcc e l) l0 := by
    intro es; induction es with
    | nil => intro l0; rfl
    | cons t ts ih => intro l0; simp only [List.map_cons, List.foldl_cons]; exact ih _
  rw [key, foldl_insert_sorted [] A.ents (by simpa using hA.1)]
  simp

/-- **Strided import**: entry `(i, j)` of the imported matrix is the exporter's item at `i·stride₀ + j·stride₁`,
for any strides (C- or Fortran-contiguous, negative, zero/broadcast), and the result is a well-formed column-major
matrix. -/
theorem C20_import_correct (m n : Nat) (s0 s1 : Int) (mem : Int → Num) (tc : TC) (i j : Nat) (hi : i < m) (hj : j < n) :
    (importBuffer m n s0 s1 mem tc).buf.getD (i + j * m) Num.zero = mem (i * s0 + j * s1) ∧
    (importBuffer m n s0 s1 mem tc).WF := by
  constructor
  · have := getD_flatMap_map (List.range n) (List.range m) (fun (j i : Nat) => mem (i * s0 + j * s1)) i j
      (by simpa using hi) (by simpa using hj) Num.zero
    simpa [importBuffer] using this
  · show ((List.range n).flatMap fun (j : Nat) => (List.range m).map fun (i : Nat) => mem ((i : Int) * s0 + (j : Int) * s1)).length = m * n
    rw [length_flatMap_map]; simp [Nat.mul_comm]

/-- **Export count**: over any history of exports and releases (of distinct view identifiers) the export counter
equals the number of live views. -/
theorem C20_export_count (evs : List Ev) : 
    let s := evs.foldl stepEv ⟨0, []⟩
    s.count = s.live.length := by
  suffices h : ∀ (s : Exports), s.count = s.live.length → (evs.foldl stepEv s).count = (evs.foldl stepEv s).live.length from
    h ⟨0, []⟩ rfl
  induction evs with
  | nil => intro s hs; exact hs
  | cons e es ih =>
    intro s hs
    simp only [List.foldl_cons]
    apply ih
    cases e with
    | «export» id => simp [stepEv, hs]
    | release id =>
      simp only [stepEv]
      split
      · rename_i hmem
        simp only [hs, List.length_erase_of_mem hmem]
      · exact hs

end CvxVerif.Serial
