"""C11: random expression trees built with the real cvxopt.modeling operators vs the direct semantics (Spec/Expr.lean):
len(f), f.value() for two assignments, acceptance/refusal by the curvature rules, non-aliasing."""
import os, sys, random, io, contextlib
from fractions import Fraction
import vlib

LEAN_TARGETS = ['CvxVerif.Props.C11']
MODEL_FILES = ['CvxVerif.Spec.Expr', 'CvxVerif.Proofs.Expr']
LEVEL = 'proof'
TRUSTED = ['direct semantics lean/CvxVerif/Spec/Expr.lean of the documented expression language (length, value, curvature rules), compared '
           'with the real modeling layer on generated expression trees with integer data']
ASSUMPTIONS = ['values are small integers so that evaluation is exact in doubles',
               'the internal coefficient representation (_lin._coeff, _addterm case analysis) is not modelled: it is exercised through trees in which '
               'the same variable occurs several times with scalar, row and matrix coefficients, dense and sparse']

def frs(x):
    f = Fraction(x); return str(f.numerator) if f.denominator == 1 else '%d/%d' % (f.numerator, f.denominator)
def vtok(v): return ','.join(frs(a) for a in v) if len(v) else '-'

class Gen:
    def __init__(self, rng, M, cvxopt):
        self.rng, self.M, self.cv = rng, M, cvxopt
        self.lens = [1, 2, 3, 2]
        self.vars = [M.variable(n, 'v%d' % i) for i, n in enumerate(self.lens)]
    def leaf(self, want, dense_only=False):
        r = self.rng
        cands = [i for i, n in enumerate(self.lens) if n == want or want is None]
        if cands and r.random() < 0.75:
            i = r.choice(cands); return (lambda: self.vars[i]), 'var %d' % i, self.lens[i]
        n = want or r.choice([1, 2, 3])
        vals = [float(r.randint(-3, 3)) for _ in range(n)]
        if n == 1 and r.random() < 0.5: return (lambda: vals[0]), 'const %s' % vtok(vals), 1
        mat = self.cv.matrix(vals) if (dense_only or n == 1 or r.random() < 0.6) else self.cv.sparse(self.cv.matrix(vals))
        return (lambda: mat), 'const %s' % vtok(vals), n
    def tree(self, depth, want=None, dense_only=False, needvar=False):
        """returns (thunk building the real object, token string, expected length or None); needvar: the result must contain a
        variable (max/min of plain numbers are Python's builtins, which the property does not talk about)"""
        f, t, l = self.tree0(depth, want, dense_only, needvar)
        if 'var' not in t and not t.startswith('const'):
            # an operation between constants is plain matrix arithmetic, not the modeling layer: its value enters the expression as a dense
            # constant (base sparse matrices do not broadcast a 1 x 1 operand, which the property does not talk about)
            f0 = f
            def f(f0=f0):
                v = f0()
                return self.cv.matrix(v) if isinstance(v, self.cv.spmatrix) else v
        if needvar and 'var' not in t:
            i = self.rng.choice([i for i, n in enumerate(self.lens) if n == want or want is None] or [0])
            return (lambda: self.vars[i]), 'var %d' % i, self.lens[i]
        return f, t, l
    def tree0(self, depth, want, dense_only, needvar):
        r = self.rng
        if depth == 0 or r.random() < 0.2: return self.leaf(want, dense_only)
        op = r.choice(['add', 'add', 'sub', 'neg', 'smul', 'sdiv', 'mmul', 'sum', 'max2', 'min2', 'maxv', 'minv', 'abs', 'idx', 'rsmul',
                       'slice', 'dot', 'iadd', 'isub', 'imul', 'idiv', 'max3', 'min3', 'maxl', 'minl'])
        M = self.M
        if op in ('add', 'sub', 'max2', 'min2'):
            dn = dense_only or op in ('max2', 'min2')
            fa, ta, la = self.tree(depth - 1, want, dn, op in ('max2', 'min2'))
            wb = la if r.random() < 0.6 else (1 if r.random() < 0.7 else r.choice([1, 2, 3]))
            fb, tb, lb = self.tree(depth - 1, wb, dn)
            f = {'add': lambda: fa() + fb(), 'sub': lambda: fa() - fb(), 'max2': lambda: M.max(fa(), fb()), 'min2': lambda: M.min(fa(), fb())}[op]
            return f, '%s %s %s' % (op, ta, tb), None
        if op in ('iadd', 'isub'):
            # in-place forms exist for function objects only: the left operand is copied first (+f), so the copy is what is mutated
            fa, ta, la = self.tree(depth - 1, want, dense_only, True)
            wb = la if r.random() < 0.6 else 1
            fb, tb, lb = self.tree(depth - 1, wb, dense_only)
            def f(op=op):
                h = +fa()
                if op == 'iadd': h += fb()
                else: h -= fb()
                return h
            return f, '%s %s %s' % (op, ta, tb), None
        if op in ('max3', 'min3', 'maxl', 'minl'):
            fa, ta, la = self.tree(depth - 1, want, True, True)
            # lengths of the further arguments: the common length, 1 (broadcast) or - sometimes - any length (a mismatch after a scalar
            # argument must still be refused)
            pick = lambda: la if r.random() < 0.6 else (1 if r.random() < 0.6 else r.choice([1, 2, 3]))
            wb, wc = pick(), pick()
            if la and la > 1 and r.random() < 0.2: wb, wc = 1, r.choice([k for k in (2, 3) if k != la] or [2])      # vector, scalar, other vector
            fb, tb, lb = self.tree(depth - 1, wb, True)
            fc, tc, lc = self.tree(depth - 1, wc, True)
            fn = M.max if op[:3] == 'max' else M.min
            t = '%s2 %s %s2 %s %s' % (op[:3], ta, op[:3], tb, tc)
            if op[3] == '3': return (lambda: fn(fa(), fb(), fc())), t, None
            return (lambda: fn([fa(), fb(), fc()])), t, None
        fa, ta, la = self.tree(depth - 1, want, dense_only or op in ('maxv', 'minv', 'abs'), op in ('maxv', 'minv', 'sum', 'idx', 'slice', 'imul', 'idiv', 'dot'))
        if op in ('imul', 'idiv'):
            c = float(r.choice([-2, 2, 4, 1, -1, 0])) if op == 'imul' else float(r.choice([-2, 2, 4, 1]))
            def f(op=op, c=c):
                h = +fa()
                if op == 'imul': h *= c
                else: h /= c
                return h
            return f, ('smul %s %s' % (frs(c), ta)) if op == 'imul' else ('sdiv %s %s' % (frs(c), ta)), None
        if op == 'slice':
            lo = r.randint(0, 2); hi = r.randint(lo, 4)
            return (lambda: fa()[lo:hi]), 'slice %d %d %s' % (lo, hi, ta), None
        if op == 'dot':
            n = la if (la and r.random() < 0.85) else r.choice([1, 2, 3])
            cv = [float(r.randint(-2, 2)) for _ in range(n)]
            cm = self.cv.matrix(cv)
            return ((lambda: M.dot(cm, fa())) if r.random() < 0.5 else (lambda: M.dot(fa(), cm))), 'dot %s %s' % (vtok(cv), ta), None
        if op == 'neg': return (lambda: -fa()), 'neg ' + ta, None
        if op in ('smul', 'rsmul'):
            c = float(r.randint(-3, 3))
            return ((lambda: c * fa()) if op == 'smul' else (lambda: fa() * c)), 'smul %s %s' % (frs(c), ta), None
        if op == 'sdiv':
            c = float(r.choice([-2, 2, 4, 1])); return (lambda: fa() / c), 'sdiv %s %s' % (frs(c), ta), None
        if op == 'sum': return (lambda: M.sum(fa())), 'sum ' + ta, None
        if op == 'maxv': return (lambda: M.max(fa())), 'maxv ' + ta, None
        if op == 'minv': return (lambda: M.min(fa())), 'minv ' + ta, None
        if op == 'abs': return (lambda: abs(fa())), 'abs ' + ta, None
        if op == 'idx':
            i = r.randint(-3, 2); return (lambda: fa()[i]), 'idx %d %s' % (i, ta), None
        if op == 'mmul':
            cols = la if la else r.choice([1, 2, 3]); rows = r.randint(1, 3)
            A = [[float(r.randint(-2, 2)) for _ in range(cols)] for _ in range(rows)]
            mat = self.cv.matrix([[A[i][j] for i in range(rows)] for j in range(cols)])
            if rows == 1 and cols == 1:        # a 1 by 1 dense matrix is a scalar
                return (lambda: mat * fa()), 'smul %s %s' % (frs(A[0][0]), ta), None
            if r.random() < 0.4 and not dense_only: mat = self.cv.sparse(mat)
            return (lambda: mat * fa()), 'mmul %s %s' % (';'.join(vtok(row) for row in A), ta), None
        return self.leaf(want)

def correspond(ctx):
    cvxopt = vlib.use_build(ctx.build)
    import cvxopt.modeling as M
    rng = random.Random(ctx.seed * 101 + 11)
    n = 1500 if ctx.quick() else 60000
    lines, obs, toks = [], [], []
    g = Gen(rng, M, cvxopt)
    vals = [[[float(rng.randint(-3, 3)) for _ in range(ln)] for ln in g.lens] for _ in range(2)]
    for assign in range(2):
        for v, x in zip(g.vars, vals[assign]): v.value = cvxopt.matrix(x)
        if assign == 0: rngstate = rng.getstate()
        else: rng.setstate(rngstate)
        lines.append('env ' + ';'.join(vtok(x) for x in vals[assign])); obs.append('ok'); toks.append(None)
        for it in range(n):
            f, t, _ = g.tree(rng.randint(1, 4))
            try:
                e = f()
                if isinstance(e, (int, float)): e = M._function() + e
                if isinstance(e, (cvxopt.matrix, cvxopt.spmatrix)):
                    e = M._function() + cvxopt.matrix(e)          # pure constants evaluate to matrices
                if type(e) is M.variable: e = +e
                val = e.value()
                o = 'len=%d val=%s' % (len(e), vtok(list(val)))
                if assign == 0:
                    # +f and binary operators return new objects: mutating the copy must not change the value of the original
                    g2 = +e
                    if g2 is e: ctx.violation('c11:pos-aliases', '+f returned the same object', {'expr': t})
            except (TypeError, ValueError, IndexError, NotImplementedError) as ex:
                o = 'refused'
            except Exception as ex:
                o = 'EXC:' + type(ex).__name__
                ctx.violation('c11:exception:' + type(ex).__name__, 'building/evaluating `%s` raised %s: %s' % (t, type(ex).__name__, ex), {'expr': t})
            lines.append('expr ' + t); obs.append(o); toks.append(t)
        # directed: constant terms with structure (entries that cancel, all zero, all equal) under scalar multiplication from either side and
        # division - the constant term of c*f, f*c, f/c is c*b, whatever b looks like
        for j, L in enumerate(g.lens):
            if L < 2: continue
            for z in ([1.0, -1.0] + [0.0] * (L - 2), [0.5, 0.25] + [0.0] * (L - 3) + [-0.75] if L >= 3 else [2.0, -2.0], [0.0] * L, [3.0] * L):
                zc = cvxopt.matrix(z)
                for c in (2.0, -4.0, 0.5):          # powers of two: the quotients are exact in doubles
                    for nm, build, t in (('f/c', lambda: (g.vars[j] + zc) / c, 'sdiv %s add var %d const %s' % (frs(c), j, vtok(z))),
                                         ('f*c', lambda: (g.vars[j] + zc) * c, 'smul %s add var %d const %s' % (frs(c), j, vtok(z))),
                                         ('c*f', lambda: c * (zc + g.vars[j]), 'smul %s add const %s var %d' % (frs(c), vtok(z), j)),
                                         ('abs+b', lambda: (abs(g.vars[j]) - zc) / c if c > 0 else (abs(g.vars[j]) - zc) * (-c),
                                          ('sdiv %s sub abs var %d const %s' % (frs(c), j, vtok(z))) if c > 0 else ('smul %s sub abs var %d const %s' % (frs(-c), j, vtok(z))))):
                        try:
                            e = build(); o = 'len=%d val=%s' % (len(e), vtok(list(e.value())))
                        except (TypeError, ValueError, IndexError, NotImplementedError): o = 'refused'
                        lines.append('expr ' + t); obs.append(o); toks.append(t)
        # directed: sum() of a vector function that contains a broadcast length-1 convex / concave term (counted once per component of the sum)
        for j, L in enumerate(g.lens):
            if L < 2: continue
            xj = g.vars[j]
            for nm, build, t in (
                    ('sum(x + max(x0, c))', lambda: M.sum(xj + M.max(xj[0], 0.5)), 'sum add var %d max2 idx 0 var %d const 1/2' % (j, j)),
                    ('sum(x + abs(x0))', lambda: M.sum(xj + abs(xj[0])), 'sum add var %d abs idx 0 var %d' % (j, j)),
                    ('sum(x + min(x0, x1))', lambda: M.sum(xj + M.min(xj[0], xj[1])), 'sum add var %d min2 idx 0 var %d idx 1 var %d' % (j, j, j)),
                    ('sum(-x + min(..))', lambda: M.sum(M.min(xj[0], xj[1], 1.0) - xj), 'sum sub min2 min2 idx 0 var %d idx 1 var %d const 1 var %d' % (j, j, j)),
                    ('sum(x + sum(max(x, 0)))', lambda: M.sum(xj + M.sum(M.max(xj, 0.0))), 'sum add var %d sum max2 var %d const 0' % (j, j)),
                    ('sum(2*abs(x) + max(x0, x1, 1))', lambda: M.sum(2.0 * abs(xj) + M.max(xj[0], xj[1], 1.0)), 'sum add smul 2 abs var %d max2 max2 idx 0 var %d idx 1 var %d const 1' % (j, j, j)),
                    ('sum(x + max(x))', lambda: M.sum(xj + M.max(xj)), 'sum add var %d maxv var %d' % (j, j))):
                try:
                    e = build(); o = 'len=%d val=%s' % (len(e), vtok(list(e.value())))
                except (TypeError, ValueError, IndexError, NotImplementedError): o = 'refused'
                lines.append('expr ' + t); obs.append(o); toks.append(t)
        # directed: the scalar variable (length 1) occurring several times in a vector expression, with scalar and with column coefficients
        y0 = g.vars[0]
        for j, L in enumerate(g.lens):
            if L < 2: continue
            xj = g.vars[j]; bcol = cvxopt.matrix([float(k_ + 2) for k_ in range(L)])
            for nm, build, t in (
                    ('(x + y) + 2*y', lambda: (xj + y0) + 2.0 * y0, 'add add var %d var 0 smul 2 var 0' % j),
                    ('(x + y) - y', lambda: (xj + y0) - y0, 'sub add var %d var 0 var 0' % j),
                    ('(y + x) + y*2', lambda: (y0 + xj) + y0 * 2.0, 'add add var 0 var %d smul 2 var 0' % j),
                    ('y + b*y', lambda: y0 + bcol * y0, 'add var 0 mmul %s var 0' % ';'.join(frs(a) for a in bcol)),
                    ('(x + y) + b*y', lambda: (xj + y0) + bcol * y0, 'add add var %d var 0 mmul %s var 0' % (j, ';'.join(frs(a) for a in bcol))),
                    ('b*y - y', lambda: bcol * y0 - y0, 'sub mmul %s var 0 var 0' % ';'.join(frs(a) for a in bcol))):
                try:
                    e = build(); o = 'len=%d val=%s' % (len(e), vtok(list(e.value())))
                except (TypeError, ValueError, IndexError, NotImplementedError): o = 'refused'
                lines.append('expr ' + t); obs.append(o); toks.append(t)
    # non-aliasing: every operator returns a new object; mutating the result in place leaves the operands as they were
    n2 = 300 if ctx.quick() else 6000
    for v, x in zip(g.vars, vals[0]): v.value = cvxopt.matrix(x)
    OPS = {'+f': lambda a, b: +a, '-f': lambda a, b: -a, 'f+g': lambda a, b: a + b, 'g+f': lambda a, b: b + a, 'f-g': lambda a, b: a - b,
           'f*2': lambda a, b: a * 2.0, '2*f': lambda a, b: 2.0 * a, 'f/2': lambda a, b: a / 2.0, 'f[:]': lambda a, b: a[:], 'f[0]': lambda a, b: a[0],
           'sum(f)': lambda a, b: M.sum(a), 'max(f,g)': lambda a, b: M.max(a, b), 'min(f,g)': lambda a, b: M.min(a, b), 'max(f)': lambda a, b: M.max(a),
           'abs(f)': lambda a, b: abs(a), 'f+1': lambda a, b: a + 1.0, '1-f': lambda a, b: 1.0 - a}
    alias_checked = 0
    for it in range(n2):
        fa, ta, la = g.tree(rng.randint(0, 3), None, True, True)
        fb, tb, lb = g.tree(rng.randint(0, 3), la if rng.random() < 0.7 else 1, True, True)
        try:
            A = fa(); B = fb()
            if type(A) is M.variable: A = +A
            if type(B) is M.variable: B = +B
            va, vb = list(A.value()), list(B.value())
        except (TypeError, ValueError, IndexError, NotImplementedError): continue
        for name, op in OPS.items():
            try: E = op(A, B)
            except (TypeError, ValueError, IndexError, NotImplementedError): continue
            if E is A or E is B:
                ctx.violation('c11:alias:' + name, '%s returned one of its operands (f = `%s`)' % (name, ta), {'f': ta, 'g': tb, 'op': name}); continue
            for mut in (lambda e: e.__imul__(2.0), lambda e: e.__iadd__(1.0), lambda e: e.__itruediv__(-4.0), lambda e: e.__isub__(0.5), lambda e: e.__imul__(0.0)):
                try: mut(E)
                except (TypeError, ValueError, IndexError, NotImplementedError): pass
            alias_checked += 1
            if list(A.value()) != va or list(B.value()) != vb:
                ctx.violation('c11:alias:' + name, 'mutating the result of %s in place changed an operand (f = `%s`, g = `%s`)' % (name, ta, tb),
                              {'f': ta, 'g': tb, 'op': name})
                break
    # directed: indexing a scalar function that contains a sum of max / min / abs terms (the term has to be expanded into one term per
    # component); every index form of a length-1 function returns a function with the same value
    same_len = [v for v in g.vars if len(v) == len(g.vars[1])]
    if len(same_len) >= 2:
        a_, b_ = same_len[0], same_len[1]; c_ = g.vars[0]
        for vset in vals:
            for v, x in zip(g.vars, vset): v.value = cvxopt.matrix(x)
            forms = {'sum(max(a,b))': lambda: M.sum(M.max(a_, b_)), 'sum(min(a,b,0))': lambda: M.sum(M.min(a_, b_, 0.0)), 'sum(abs(a-b))': lambda: M.sum(abs(a_ - b_)),
                     '2*sum(min(a,b))+c-1': lambda: 2.0 * M.sum(M.min(a_, b_)) + (c_ if len(c_) == 1 else M.sum(c_)) - 1.0, 'sum(max(a,b))-sum(min(a,b))': lambda: M.sum(M.max(a_, b_)) - M.sum(M.min(a_, b_))}
            for nm, mk in forms.items():
                try: F = mk(); ref = list(F.value())
                except (TypeError, ValueError): continue
                for itok, idx in (('[0]', 0), ('[-1]', -1), ('[:]', slice(None)), ('[0:1]', slice(0, 1)), ('[[0]]', [0])):
                    try: Gf = F[idx]; got = list(Gf.value()); lg = len(Gf)
                    except Exception as ex:
                        ctx.violation('c11:exception:' + type(ex).__name__, 'indexing `%s`%s raised %s: %s' % (nm, itok, type(ex).__name__, ex), {'expr': nm + itok}); continue
                    alias_checked += 1
                    if lg != 1 or len(got) != 1 or abs(got[0] - ref[0]) > 1e-12 * (1 + abs(ref[0])):
                        ctx.violation('c11:value', 'expression `(%s)%s`: modeling layer gives %r (length %d), the formula gives %r' % (nm, itok, got, lg, ref), {'expr': nm + itok, 'values': [list(v.value) for v in g.vars]})
        for v, x in zip(g.vars, vals[0]): v.value = cvxopt.matrix(x)
    out = vlib.drive('C11', lines)
    dis = 0
    for l, o, m, t in zip(lines, obs, out, toks):
        if t is None: continue
        d = dict(kv.split('=') for kv in m.split(' '))
        model_ok = d['len'] != 'error' and d['curv'] != 'refused' and d['val'] != 'error'
        exp = ('len=%s val=%s' % (d['len'], d['val'])) if model_ok else 'refused'
        if o != exp:
            dis += 1
            if dis <= 5:
                kind = 'refusal' if (o == 'refused') != (exp == 'refused') else 'value'
                ctx.violation('c11:%s' % kind, 'expression `%s`: modeling layer gives `%s`, direct semantics `%s` (%s)' % (t, o, exp, m), {'expr': t, 'impl': o, 'spec': m})
    ctx.cov.update({'evaluations': len(lines), 'distinct_nontrivial': len(set(t for t in toks if t and len(t.split()) > 4)),
                    'rule': '%d random expression trees of depth <= 4 over 4 variables (lengths 1,2,3,2), operators + - unary- scalar*/ matrix* sum max min abs '
                            'indexing, dense and sparse constants, the same variable occurring several times; each evaluated for two assignments of '
                            'the variables; compared: len, value, and acceptance vs refusal' % n,
                    'protocol_lines_compared': len(lines), 'disagreements_checked': dis, 'alias_checks': alias_checked})
    ctx.samples += [t for t in toks if t][:4]

def search(ctx, why): return
def replay(ctx, payload): correspond(ctx)

def build_tokens(toks, vars_, M, cv):
    """rebuild a real modeling object from a prefix token string (dense constants); used by replays and debugging"""
    toks = toks.split() if isinstance(toks, str) else toks
    pos = [0]
    def vec(s): return [] if s == '-' else [float(Fraction(a)) for a in s.split(',')]
    def nxt():
        t = toks[pos[0]]; pos[0] += 1; return t
    def rec():
        t = nxt()
        if t == 'var': return vars_[int(nxt())]
        if t == 'const':
            v = vec(nxt()); return v[0] if len(v) == 1 else cv.matrix(v)
        if t in ('add', 'sub', 'max2', 'min2', 'iadd', 'isub'):
            a = rec(); b = rec()
            if t == 'add': return a + b
            if t == 'sub': return a - b
            if t == 'max2': return M.max(a, b)
            if t == 'min2': return M.min(a, b)
            h = +a
            if t == 'iadd': h += b
            else: h -= b
            return h
        if t == 'neg': return -rec()
        if t == 'abs': return abs(rec())
        if t == 'sum': return M.sum(rec())
        if t == 'maxv': return M.max(rec())
        if t == 'minv': return M.min(rec())
        if t == 'smul': c = float(Fraction(nxt())); return c * rec()
        if t == 'sdiv': c = float(Fraction(nxt())); return rec() / c
        if t == 'idx': i = int(nxt()); return rec()[i]
        if t == 'slice': lo = int(nxt()); hi = int(nxt()); return rec()[lo:hi]
        if t == 'dot': c = cv.matrix(vec(nxt())); return M.dot(c, rec())
        if t == 'mmul':
            rows = [vec(r) for r in nxt().split(';')]
            A = cv.matrix([[rows[i][j] for i in range(len(rows))] for j in range(len(rows[0]))])
            return A * rec()
        raise ValueError('token ' + t)
    return rec()
