import CvxVerif.Model.CertCheckNL
import Mathlib.Tactic.Linarith

/-!
C04 — 'optimal' from cpl/cp/gp satisfies the nonlinear KKT conditions in-domain.

* `C04_check_spec`: what the rational checker `optimalOkCpl` (applied by `tools/corr/c04.py` to what `cpl`/`cp` really return on
  problems with convex quadratic `F`, where `f` and `Df` can be re-evaluated exactly) accepts is exactly the documented list of
  conditions: primal and dual residuals within `feastol` of the starting-point normalisers, `snl, znl ≥ 0`, `sl, zl` in the cone,
  and the gap criterion.
* `C04_gap_bounds_suboptimality`: at a primal feasible point whose Lagrangian (with the returned nonnegative multipliers) is minimal,
  the objective is within `gap` of the optimal value — why the gap criterion is the right stopping test, for every convex `F`.
* `C04_epigraph_minimiser`: `cp` solves the epigraph problem in `(x, t)`; the `x`-part of an optimal pair minimises the original
  objective (so `cp` returns the minimiser of the original problem, not of the internal one).
* the generated stopping test of `cpl` (`Gen/DecideNL.lean`, regenerated from cvxprog.py on every run): `C04_optimal_only_when_converged`,
  `C04_result_map`.
-/
namespace CvxVerif.C04
open CvxVerif.Cert

/-- the checker accepts exactly the documented conditions -/
theorem C04_check_spec (p : Problem) (fs : List Quad) (x0 x snl sl y znl zl : List Rat) (feastol abstol reltol : Rat) :
    optimalOkCpl p fs x0 x snl sl y znl zl feastol abstol reltol = true ↔
      (let r := residualsCpl p fs x0 x snl sl y znl zl
       (r.ry2 + r.rznl2 + r.rzl2 ≤ feastol * feastol * r.pres02) ∧ (r.rx2 ≤ feastol * feastol * r.dres02) ∧
       (∀ a ∈ snl, 0 ≤ a) ∧ (∀ a ∈ znl, 0 ≤ a) ∧ inCone p.d sl = true ∧ inCone p.d zl = true ∧
       (r.gap ≤ abstol ∨ (r.pcost < 0 ∧ r.gap ≤ reltol * (-r.pcost)) ∨ (0 < r.dcost ∧ r.gap ≤ reltol * r.dcost))) := by
  simp only [optimalOkCpl, Bool.and_eq_true, Bool.or_eq_true, decide_eq_true_eq, List.all_eq_true]
  constructor
  · rintro ⟨⟨⟨⟨⟨⟨h1, h2⟩, h3⟩, h4⟩, h5⟩, h6⟩, h7⟩
    exact ⟨h1, h2, h3, h4, h5, h6, by rcases h7 with (h | h) | h <;> tauto⟩
  · rintro ⟨h1, h2, h3, h4, h5, h6, h7⟩
    exact ⟨⟨⟨⟨⟨⟨h1, h2⟩, h3⟩, h4⟩, h5⟩, h6⟩, by rcases h7 with h | h | h <;> tauto⟩

variable {K : Type} [Field K] [LinearOrder K] [IsStrictOrderedRing K]

/-- `Σ z_k v_k` -/
def wsum : List K → List K → K
  | l :: ls, g :: gs => l * g + wsum ls gs
  | _, _ => 0

theorem wsum_nonpos : ∀ (ls gs : List K), (∀ l ∈ ls, 0 ≤ l) → (∀ g ∈ gs, g ≤ 0) → wsum ls gs ≤ 0
  | [], _, _, _ => by simp [wsum]
  | _ :: _, [], _, _ => by simp [wsum]
  | l :: ls, g :: gs, hl, hg => by
    simp only [wsum]
    have h1 : l * g ≤ 0 := mul_nonpos_of_nonneg_of_nonpos (hl l (List.mem_cons_self ..)) (hg g (List.mem_cons_self ..))
    have h2 := wsum_nonpos ls gs (fun x hx => hl x (List.mem_cons_of_mem _ hx)) (fun x hx => hg x (List.mem_cons_of_mem _ hx))
    linarith

/-- **The duality gap bounds the suboptimality.**  `f0` objective, `fnl x` the values of the nonlinear constraints, `lin x` the value of
`⟨zl, Gx − h⟩ + ⟨y, Ax − b⟩` for the returned `(zl, y)`.  If the returned point `xs` minimises the Lagrangian and its Lagrangian value is
`f0 xs − gap` (which is what `f(xs) + snl = 0`, `G xs + sl = h`, `A xs = b` give), then every feasible `x` — one with `fnl x ≤ 0` and
`lin x ≤ 0` (true when `Gx ≼ h`, `Ax = b`, `zl` in the dual cone) — has `f0 x ≥ f0 xs − gap`. -/
theorem C04_gap_bounds_suboptimality {X : Type} (f0 : X → K) (fnl : X → List K) (lin : X → K) (znl : List K) (xs : X) (gap : K)
    (hz : ∀ l ∈ znl, 0 ≤ l)
    (hmin : ∀ x, f0 xs + wsum znl (fnl xs) + lin xs ≤ f0 x + wsum znl (fnl x) + lin x)
    (hgap : f0 xs + wsum znl (fnl xs) + lin xs = f0 xs - gap) :
    ∀ x, (∀ v ∈ fnl x, v ≤ 0) → lin x ≤ 0 → f0 xs - gap ≤ f0 x := by
  intro x hf hl
  have h1 := wsum_nonpos znl (fnl x) hz hf
  have h2 := hmin x
  linarith

omit [Field K] [IsStrictOrderedRing K] in
/-- **cp returns the minimiser of the original problem**: if `(xs, ts)` is optimal for the epigraph problem
`minimize t s.t. f0 x ≤ t, feasible x`, then `xs` minimises `f0` over the feasible set. -/
theorem C04_epigraph_minimiser {X : Type} (f0 : X → K) (feasible : X → Prop) (xs : X) (ts : K)
    (hfeas : feasible xs) (hepi : f0 xs ≤ ts) (hopt : ∀ x t, feasible x → f0 x ≤ t → ts ≤ t) :
    feasible xs ∧ ∀ x, feasible x → f0 xs ≤ f0 x :=
  ⟨hfeas, fun x hx => le_trans hepi (hopt x (f0 x) hx (le_refl _))⟩

/-! Non-vacuity: the checker accepts an exact KKT point of  min x  s.t.  x² − 1 ≤ 0  (x = −1, multiplier ½) and rejects x = 0. -/
example : optimalOkCpl ⟨⟨0, [], []⟩, [1], [[]], [], [[]], []⟩ [⟨[[2]], [0], -1⟩] [0] [-1] [0] [] [] [1/2] [] (1/10000000) (1/10000000) (1/1000000) = true := by
  decide +kernel
example : optimalOkCpl ⟨⟨0, [], []⟩, [1], [[]], [], [[]], []⟩ [⟨[[2]], [0], -1⟩] [0] [0] [1] [] [] [1/2] [] (1/10000000) (1/10000000) (1/1000000) = false := by
  decide +kernel

end CvxVerif.C04
