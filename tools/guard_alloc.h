/* Guard-page allocator injected with `-include` into the rebuilt cvxopt C units (tools/buildrepo.py --guard).
 *
 * Every malloc/calloc/realloc of the extension is served from its own anonymous mapping whose last page is PROT_NONE and whose user
 * block ENDS at that page (up to 7 bytes of alignment slack), so that any read or write past the end of a matrix buffer - by the
 * wrapper itself or by the BLAS/LAPACK routine it calls - raises SIGSEGV instead of silently touching the heap.  With
 * CVXOPT_GUARD_UNDER=1 in the environment the block instead STARTS right after a PROT_NONE page (catches accesses before the start).
 * CVXOPT_GUARD_SLACK=<bytes> leaves that many canary bytes (0xA5) between the end of the block and the guard page: vectorised BLAS kernels
 * read up to one vector register past the end of their operands (harmless, the data is discarded), which an exact guard would report;
 * reads inside the slack pass, writes into it are detected when the block is freed (abort), accesses beyond it fault.
 * Only used by the verification harness; never part of a normal build.
 */
#ifndef CVXVERIF_GUARD_ALLOC_H
#define CVXVERIF_GUARD_ALLOC_H
#include <stdlib.h>
#include <string.h>
#include <stdint.h>
#include <unistd.h>
#include <sys/mman.h>

#define GUARD_MAGIC ((size_t)0x6775617264706167ULL)

typedef struct { size_t magic, total, user; char *base; } guard_hdr;

static size_t guard_ps(void) { static size_t p = 0; if (!p) p = (size_t)sysconf(_SC_PAGESIZE); return p; }
static int guard_under(void) { static int u = -1; if (u < 0) { const char *e = getenv("CVXOPT_GUARD_UNDER"); u = (e && e[0] == '1'); } return u; }
static size_t guard_slack(void) { static long s = -1; if (s < 0) { const char *e = getenv("CVXOPT_GUARD_SLACK"); s = e ? atol(e) : 0; if (s < 0) s = 0; s = (s + 7) & ~7L; } return (size_t)s; }

static void *guard_malloc(size_t n)
{
    size_t ps = guard_ps();
    size_t nn = (n + 7) & ~(size_t)7;
    if (!guard_under()) {
        /* [hdr ... | user block][guard page] */
        size_t sl = guard_slack();
        size_t need = nn + sl + sizeof(guard_hdr);
        size_t np = (need + ps - 1) / ps;
        size_t total = (np + 1) * ps;
        char *base = (char *)mmap(NULL, total, PROT_READ | PROT_WRITE, MAP_PRIVATE | MAP_ANONYMOUS, -1, 0);
        if (base == (char *)MAP_FAILED) return NULL;
        mprotect(base + np * ps, ps, PROT_NONE);
        char *user = base + np * ps - sl - nn;
        if (sl) memset(user + nn, 0xA5, sl);
        guard_hdr *h = (guard_hdr *)(user - sizeof(guard_hdr));
        h->magic = GUARD_MAGIC; h->total = total; h->user = n; h->base = base;
        return user;
    } else {
        /* [hdr page][guard page][user block ...] : the header lives in its own page before the guard */
        size_t np = (nn + ps - 1) / ps; if (np == 0) np = 1;
        size_t total = (np + 2) * ps;
        char *base = (char *)mmap(NULL, total, PROT_READ | PROT_WRITE, MAP_PRIVATE | MAP_ANONYMOUS, -1, 0);
        if (base == (char *)MAP_FAILED) return NULL;
        guard_hdr *h = (guard_hdr *)base;
        h->magic = GUARD_MAGIC; h->total = total; h->user = n; h->base = base;
        mprotect(base + ps, ps, PROT_NONE);
        return base + 2 * ps;
    }
}

static guard_hdr *guard_find(void *p)
{
    if (!guard_under()) return (guard_hdr *)((char *)p - sizeof(guard_hdr));
    return (guard_hdr *)((char *)p - 2 * guard_ps());
}

static void guard_free(void *p)
{
    if (!p) return;
    guard_hdr *h = guard_find(p);
    if (h->magic != GUARD_MAGIC) abort();          /* a pointer that did not come from this allocator */
    if (!guard_under()) {
        size_t sl = guard_slack(), nn = (h->user + 7) & ~(size_t)7, i;
        for (i = 0; i < sl; i++)
            if (((unsigned char *)p)[nn + i] != 0xA5) abort();   /* something was written past the end of the block */
    }
    munmap(h->base, h->total);
}

static void *guard_calloc(size_t a, size_t b)
{
    if (b && a > (size_t)-1 / b) return NULL;
    return guard_malloc(a * b);                      /* anonymous mappings are zero-filled */
}

static void *guard_realloc(void *p, size_t n)
{
    if (!p) return guard_malloc(n);
    guard_hdr *h = guard_find(p);
    if (h->magic != GUARD_MAGIC) abort();
    void *q = guard_malloc(n);
    if (!q) return NULL;
    memcpy(q, p, h->user < n ? h->user : n);
    guard_free(p);
    return q;
}

#define malloc(n) guard_malloc(n)
#define calloc(a, b) guard_calloc(a, b)
#define realloc(p, n) guard_realloc(p, n)
#define free(p) guard_free(p)
#endif
