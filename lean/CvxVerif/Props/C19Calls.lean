import CvxVerif.Gen.CallArgs

/-!
C19 — after the argument checks.  The safety theorems (`Gen/C19Safe*.lean`) bound, for every accepted call, the block of each matrix that *starts at
that matrix's own offset*.  This file closes the step from the checks to the Fortran call: every pointer argument `MAT_BUF<t>(N) + e` that blas.c and lapack.c
hand to BLAS / LAPACK (regenerated table `Gen/CallArgs.lean`, translator tools/translate/ccall2lean.py) uses the offset variable of the same matrix `N`
(`oN`, optionally followed by a column shift `+ k*ldN` or, in a conditional argument, by the `: NULL` alternative).  A call that passes `B + oA` is accepted by
checks that say nothing about it.
-/
namespace CvxVerif.C19Calls
open CvxVerif.Gen.CallArgs

/-- the offset expression begins with the offset variable of the matrix it is added to -/
def ownOffset (matrix expr : String) : Bool :=
  let o := "o" ++ matrix
  expr == o || expr.startsWith (o ++ " ") || expr.startsWith (o ++ "+")

theorem C19_call_offsets : ∀ a ∈ ptrArgs, ownOffset a.2.2.1 a.2.2.2 = true := by decide +kernel

/-- both files are covered and the table is not empty (the statement above is not vacuous) -/
theorem C19_call_offsets_present :
    100 ≤ (ptrArgs.filter fun a => a.1 == "blas.c").length ∧ 200 ≤ (ptrArgs.filter fun a => a.1 == "lapack.c").length := by decide +kernel

/-- the 32-bit pivot work array: all of a wrapper's allocations have one element count, and every loop that copies pivots between the work array and `ipiv`
runs over exactly that many entries (the argument checks bound `len(ipiv)` from below by the same count) -/
def pivotOk (t : String × List String × List String) : Bool :=
  match t.2.1 with
  | [] => false
  | a :: _ => t.2.1.all (· == a) && t.2.2.all (· == a)

theorem C19_pivot_copy_bounds : ∀ t ∈ pivotLoops, pivotOk t = true := by decide +kernel

theorem C19_pivot_loops_present : 15 ≤ pivotLoops.length ∧ 12 ≤ (pivotLoops.filter fun t => !t.2.2.isEmpty).length := by decide +kernel

example : ownOffset "B" "oA" = false := by decide +kernel
example : ownOffset "A" "oA + k*ldA" = true := by decide +kernel

end CvxVerif.C19Calls
