import CvxVerif.Gen.LapackDriver
import CvxVerif.Model.Proto
open CvxVerif CvxVerif.CWrap CvxVerif.Gen.Lapack CvxVerif.Proto

/-- `lapack <routine> k=v ...` (booleans as 0/1) -/
def stepLine (u : Unit) (line : String) : Unit × String :=
  match words line with
  | "lapack" :: name :: kvs =>
    let tbl : List (String × Int) := kvs.filterMap fun kv =>
      match kv.splitOn "=" with
      | [k, v] => v.toInt?.map fun n => (k, n)
      | _ => none
    let kv := fun k => match tbl.find? (·.1 == k) with | some p => p.2 | none => 0
    let kb := fun k => kv k != 0
    match runLapack name kv kb with
    | none => (u, "no-routine")
    | some (.reject c) => (u, "reject " ++ c)
    | some .none => (u, "none")
    | some (.call vals) => (u, "call " ++ " ".intercalate ((callNamesL name).zip vals |>.map fun p => s!"{p.1}={p.2}"))
  | _ => (u, "bad-op")

def main : IO Unit := loop stepLine ()
