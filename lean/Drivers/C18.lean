import CvxVerif.Model.MatCheck
open CvxVerif CvxVerif.MatCheck CvxVerif.Proto

partial def parseEx : List String → Option (Ex × List String)
  | "mul" :: r => do let (a, r) ← parseEx r; let (b, r) ← parseEx r; pure (.mul a b, r)
  | "sub" :: r => do let (a, r) ← parseEx r; let (b, r) ← parseEx r; pure (.sub a b, r)
  | "add" :: r => do let (a, r) ← parseEx r; let (b, r) ← parseEx r; pure (.add a b, r)
  | "tr" :: r => do let (a, r) ← parseEx r; pure (.tr a, r)
  | "diag" :: r => do let (a, r) ← parseEx r; pure (.diag a, r)
  | "lower" :: r => do let (a, r) ← parseEx r; pure (.lower a, r)
  | "upper" :: r => do let (a, r) ← parseEx r; pure (.upper a, r)
  | "symL" :: r => do let (a, r) ← parseEx r; pure (.symL a, r)
  | "symU" :: r => do let (a, r) ← parseEx r; pure (.symU a, r)
  | "unitLower" :: r => do let (a, r) ← parseEx r; pure (.unitLower a, r)
  | "unitUpper" :: r => do let (a, r) ← parseEx r; pure (.unitUpper a, r)
  | "eye" :: n :: r => n.toNat?.map fun k => (.eye k, r)
  | "rows" :: k :: r => do let k ← k.toNat?; let (a, r) ← parseEx r; pure (.rows k a, r)
  | "cols" :: k :: r => do let k ← k.toNat?; let (a, r) ← parseEx r; pure (.cols k a, r)
  | v :: r => if v.startsWith "$" then some (.var (v.drop 1).toString, r) else none
  | [] => none

def parseFull (ws : List String) : Option Ex := match parseEx ws with | some (e, []) => some e | _ => none

/-- split a token list at ";" -/
def splitSemi (ws : List String) : List (List String) :=
  ws.foldr (fun w acc => if w == ";" then [] :: acc else match acc with | h :: t => (w :: h) :: t | [] => [[w]]) [[]]

/-- `mat name m n v11,v12,..` (row major) | `small tol e ; f ; g` | `fro2 e` | `reset` -/
def stepLine (env : List (String × M)) (line : String) : List (String × M) × String :=
  match words line with
  | ["reset"] => ([], "ok")
  | ["mat", name, m, n, vals] =>
    match m.toNat?, n.toNat?, (if vals == "-" then some [] else (vals.splitOn ",").mapM parseRat) with
    | some m, some n, some v =>
      if v.length ≠ m * n then (env, "bad-op") else
      let A : M := ⟨m, n, (List.range m).map fun i => (List.range n).map fun j => v.getD (i * n + j) 0⟩
      ((name, A) :: env.filter (·.1 ≠ name), "ok")
    | _, _, _ => (env, "bad-op")
  | "small" :: tol :: rest =>
    match parseRat tol, (splitSemi rest).map parseFull with
    | some t, [some e, some f, some g] =>
      match smallRel env e f g t, eval env e with
      | some b, some E => (env, s!"{b} fro2={showRat (fro2 E)}")
      | _, _ => (env, "shape-error")
    | _, _ => (env, "bad-op")
  | "fro2" :: rest =>
    match parseFull rest with
    | some e => match eval env e with
      | some E => (env, showRat (fro2 E))
      | none => (env, "shape-error")
    | none => (env, "bad-op")
  | _ => (env, "bad-op")

def main : IO Unit := loop stepLine []
