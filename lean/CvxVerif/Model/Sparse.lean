/-!
Model of cvxopt sparse matrices (`src/C/sparse.c`): the compressed-column structure is represented by its list of
entries `(col, row, value)` in strictly increasing `(col, row)` order (what `colptr/rowind/values` encode);
`toCCS` recomputes the three arrays that `A.CCS` shows.  Explicit zeros are entries like any other.
Values are rationals (real matrices) — complex matrices are exercised by the harness through their real and
imaginary parts separately.  Core Lean only.
-/
namespace CvxVerif.Sparse

structure Entry where
  col : Nat
  row : Nat
  val : Rat
deriving DecidableEq, Repr

/-- lexicographic order on (col, row): the storage order -/
def Entry.lt (a b : Entry) : Prop := a.col < b.col ∨ (a.col = b.col ∧ a.row < b.row)
instance (a b : Entry) : Decidable (a.lt b) := by unfold Entry.lt; infer_instance
def Entry.samePos (a b : Entry) : Bool := a.col == b.col && a.row == b.row

structure SpMat where
  nrows : Nat
  ncols : Nat
  ents : List Entry
deriving DecidableEq, Repr

/-- insert an entry, accumulating into an existing entry at the same position (duplicate summation of
`spmatrix(V, I, J)`, the sparse accumulator of `A + B`, `A * B`) -/
def insertAcc (e : Entry) : List Entry → List Entry
  | [] => [e]
  | x :: xs =>
    if e.samePos x then { x with val := x.val + e.val } :: xs
    else if e.lt x then e :: x :: xs
    else x :: insertAcc e xs

/-- replace the value at a position, inserting a new entry when the position is not in the pattern (`A[i,j] = v`) -/
def insertSet (e : Entry) : List Entry → List Entry
  | [] => [e]
  | x :: xs =>
    if e.samePos x then e :: xs
    else if e.lt x then e :: x :: xs
    else x :: insertSet e xs

def lookup (l : List Entry) (c r : Nat) : Rat :=
  match l.find? (fun x => x.col == c && x.row == r) with
  | some x => x.val
  | none => 0

/-- strictly increasing storage order -/
def Sorted (l : List Entry) : Prop := l.Pairwise Entry.lt

def InRange (m n : Nat) (l : List Entry) : Prop := ∀ e ∈ l, e.row < m ∧ e.col < n

/-- the structural invariant of a sparse matrix -/
def SpMat.Valid (A : SpMat) : Prop := Sorted A.ents ∧ InRange A.nrows A.ncols A.ents

/-- dense image: the value at `(r, c)` -/
def SpMat.get (A : SpMat) (r c : Nat) : Rat := lookup A.ents c r

/-- `spmatrix(V, I, J, (m, n))` -/
def fromTriplets (m n : Nat) (trip : List (Nat × Nat × Rat)) : Option SpMat :=
  if trip.any (fun t => decide (t.1 ≥ m) || decide (t.2.1 ≥ n)) then none
  else some ⟨m, n, trip.foldl (fun l t => insertAcc ⟨t.2.1, t.1, t.2.2⟩ l) []⟩

def transpose (A : SpMat) : SpMat :=
  ⟨A.ncols, A.nrows, A.ents.foldl (fun l e => insertAcc ⟨e.row, e.col, e.val⟩ l) []⟩

def add (A B : SpMat) : Option SpMat :=
  if A.nrows != B.nrows || A.ncols != B.ncols then none
  else some ⟨A.nrows, A.ncols, B.ents.foldl (fun l e => insertAcc e l) A.ents⟩

def scale (a : Rat) (A : SpMat) : SpMat := { A with ents := A.ents.map fun e => { e with val := a * e.val } }
def neg (A : SpMat) : SpMat := scale (-1) A
def sub (A B : SpMat) : Option SpMat := add A (neg B)

/-- sparse × sparse: every structural product `A(i,k)·B(k,j)` contributes to position `(i,j)` -/
def mul (A B : SpMat) : Option SpMat :=
  if A.ncols != B.nrows then none
  else some ⟨A.nrows, B.ncols,
    B.ents.foldl (fun l b => (A.ents.filter (fun a => a.col == b.row)).foldl
      (fun l a => insertAcc ⟨b.col, a.row, a.val * b.val⟩ l) l) []⟩

/-- `A[i, j] = v` for in-range (already wrapped) indices -/
def setEntry (A : SpMat) (r c : Nat) (v : Rat) : SpMat := { A with ents := insertSet ⟨c, r, v⟩ A.ents }

/-- the arrays shown by `A.CCS`: column pointers, row indices, values -/
def toCCS (A : SpMat) : List Nat × List Nat × List Rat :=
  ((List.range (A.ncols + 1)).map fun j => (A.ents.filter fun e => e.col < j).length,
   A.ents.map (·.row), A.ents.map (·.val))

/-- `partial=True` in the mixed products (`axpy`, `gemm`, `syrk` with a sparse output): the sparsity pattern of the output is kept and every
stored entry `(r, c)` receives the value `D r c` of the full (dense) result -/
def partialUpdate (C : SpMat) (D : Nat → Nat → Rat) : SpMat :=
  { C with ents := C.ents.map fun e => { e with val := D e.row e.col } }

end CvxVerif.Sparse
