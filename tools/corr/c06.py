"""C06: kktsolver dispatch generated from source (Gen/Dispatch.lean) vs real entry points (exhaustive over a fixed
name list), and metamorphic pairs of presentations of planted problems through the real solvers."""
import os, sys, json, random, io, contextlib, math
import vlib
sys.path.insert(0, os.path.join(vlib.VERIF, 'tools', 'translate'))

LEAN_TARGETS = ['CvxVerif.Props.C06', 'CvxVerif.Props.C06Present']
MODEL_FILES = ['CvxVerif.Model.PyVal', 'CvxVerif.Gen.Dispatch', 'CvxVerif.Props.C06Present']
LEVEL = 'proof'
TRUSTED = ['translator py2lean.gen_dispatch (kktsolver default, validation, factory selection and arity; misc.kkt_* signatures) '
           'executed against the real entry points on every name of a fixed list',
           'presentation theorems (Props/C06Present.lean) are about abstract optimisation problems over an ordered field; '
           'that the solvers return certificates of the presented problem is C01/C03']
ASSUMPTIONS = ['agreement of two solver paths to solver tolerance is observed (tolerance 1e-5 relative on the optimal value), '
               'it follows from certificate soundness (C01/C03, C05_two_certs_close) only up to rounding']

NAMES = ['ldl', 'ldl2', 'qr', 'chol', 'chol2', 'foo', '', 'LDL', 'cholmod', 'qr2', 'none']

def translate(ctx):
    import py2lean
    try: py2lean.gen_dispatch()
    except Exception as e: return ['py2lean.gen_dispatch: %s: %s' % (type(e).__name__, e)]
    return []

def quiet(f, *a, **k):
    with contextlib.redirect_stdout(io.StringIO()):
        return f(*a, **k)

def correspond(ctx):
    cvxopt = vlib.use_build(ctx.build)
    from corr import problems as PR
    from cvxopt import solvers, matrix, spmatrix, sparse
    solvers.options.clear(); solvers.options['show_progress'] = False
    rng = random.Random(ctx.seed * 7907 + 6)
    ARGS = PR.basic_calls(cvxopt)
    evals = 0
    distinct = set()
    # ---------------------------------------------------------------- (a) dispatch, exhaustive over NAMES x entry points
    lines, expect, meta = [], [], []
    native = {'conelp': 'conelp', 'lp': 'conelp', 'socp': 'conelp', 'sdp': 'conelp', 'coneqp': 'coneqp', 'qp': 'coneqp',
              'cpl': 'cpl', 'cp': 'cp', 'gp': 'cp'}
    QS = {'conelp': 0, 'lp': 0, 'socp': 1, 'sdp': 1, 'coneqp': 0, 'qp': 0, 'cpl': 0, 'cp': 0, 'gp': 0}
    for ep in ['conelp', 'lp', 'socp', 'sdp', 'coneqp', 'qp', 'cpl', 'cp', 'gp']:
        f, a, kw = ARGS[ep]
        for name in NAMES + [None]:
            kw2 = dict(kw); kw2['kktsolver'] = name
            try:
                r = quiet(f, *a, **kw2); obs = 'solved:' + r['status']
            except ValueError as e:
                msg = str(e)
                obs = 'ValueError-name' if 'kktsolver' in msg and 'valid value' in msg else \
                      'ValueError-unsupported' if 'kktsolver' in msg or 'kkt_' in msg else 'ValueError:' + msg[:40]
            except Exception as e:
                obs = 'EXC:' + type(e).__name__ + ':' + str(e)[:50]
            evals += 1
            distinct.add((ep, name))
            # property oracle: a name is either supported (solves) or rejected with ValueError
            if obs.startswith('EXC'):
                ctx.violation('c06:kktsolver-name-not-rejected:%s' % native[ep],
                              "%s(kktsolver=%r) raises %s instead of solving or rejecting the name with ValueError" % (ep, name, obs[4:]),
                              {'entry': ep, 'kktsolver': name, 'observed': obs})
            elif obs.startswith('solved:') and obs != 'solved:optimal':
                ctx.violation('c06:kktsolver-name-status:%s' % native[ep], "%s(kktsolver=%r) ends with %s on a well-posed problem" % (ep, name, obs),
                              {'entry': ep, 'kktsolver': name, 'observed': obs})
            lines.append('dispatch %s %d %s' % (native[ep], QS[ep], 'none' if name is None else 's' + name if name else 's'))
            expect.append('error ValueError' if obs == 'ValueError-name' else 'callable-str' if obs.startswith('EXC') else 'builtin')
            meta.append((ep, name, obs))
    out = vlib.drive('C06', lines)
    dis = 0
    for l, e, o, m in zip(lines, expect, out, meta):
        mo = 'error ValueError' if o == 'error ValueError' else 'callable-str' if o.startswith('ok callable') or o.startswith('ok-badarity') else 'builtin'
        if mo != e:
            dis += 1
            if dis <= 3: ctx.broke('correspondence C06 (generated dispatch vs entry point)', {'line': l, 'impl': e, 'model': o, 'case': m})
    # ---------------------------------------------------------------- (b) metamorphic pairs
    npairs = 25 if ctx.quick() else 600
    def val_close(a, b): return abs(a - b) <= 1e-4 * (1 + abs(a) + abs(b))
    def solve(fn, *a, **k):
        try:
            r = quiet(fn, *a, **k)
            st = r['status']
            if st == 'unknown' and r.get('primal infeasibility') is not None and r.get('dual infeasibility') is not None \
               and r['primal infeasibility'] <= 1e-5 and r['dual infeasibility'] <= 1e-5 and r.get('gap') is not None \
               and (r['gap'] <= 1e-5 or (r.get('relative gap') is not None and r['relative gap'] <= 1e-5)):
                # the property (C05) accepts 'unknown' with a final iterate already at the 1e-5 level
                near[0] += 1
                st = 'optimal'
            return st, r.get('primal objective'), r
        except ValueError as e:
            return 'ValueError:' + str(e)[:60], None, None
        except Exception as e:
            return 'EXC:%s:%s' % (type(e).__name__, str(e)[:60]), None, None
    pairs = 0
    near = [0]
    pending = []
    tagcount = {}; chol2_runs = [0]
    for i in range(npairs):
        qp = rng.random() < 0.35
        if i % 6 == 5: pr = PR.planted_sparse_lp(rng, qp)          # larger sparse componentwise problems with equality constraints
        elif i % 6 == 2 and not qp:
            # semidefinite programs with more variables than diagonal entries of the 's' blocks (an order-k block gives k(k+1)/2 rows)
            k_ = rng.choice([2, 3]); pr = PR.planted_conelp(rng, 'optimal', n=rng.randint(k_ + 1, k_ * (k_ + 1) // 2), dims={'l': 0, 'q': [], 's': [k_]}, p=0)
        else: pr = PR.planted_conelp(rng, 'optimal', P_rank=(rng.randint(0, 3) if qp else None))
        c, G, h, A, b, P = PR.to_cvx(cvxopt, pr)
        dims = pr.dims
        hasQS = bool(dims['q'] or dims['s'])
        def base(**kw):
            if qp: return solve(solvers.coneqp, P, c, G, h, dims, A, b, **kw)
            return solve(solvers.conelp, c, G, h, dims, A, b, **kw)
        st0, v0, r0 = base()
        evals += 1
        desc = {'seed': ctx.seed, 'index': i, 'qp': qp, 'dims': dims, 'n': pr.n, 'p': pr.p, 'c': pr.c, 'G': pr.G, 'h': pr.h, 'A': pr.A, 'b': pr.b, 'P': pr.P}
        rankPG = None
        if qp:
            rankPG = PR.rank_cols([pc + gc for pc, gc in zip(pr.P, pr.G)], [[] for _ in range(pr.n)])
        rankG = PR.rank_cols(pr.G, [[] for _ in range(pr.n)])
        def report(tag, what, st=''):
            t0 = tag.replace('status-differs:', '').replace('value-differs:', '')
            usesChol2 = t0.startswith('kktsolver=chol2') or (not hasQS and not t0.startswith('kktsolver='))
            deficient = (rankPG is not None and rankPG < pr.n) if qp else (rankG < pr.n)
            if deficient and usesChol2 and (st.startswith('ValueError:Rank') or st == 'unknown'):
                # family: kkt_chol2 when G (resp. [P; G]) is rank deficient although Rank([P; A; G]) = n
                sig = 'c06:chol2-rank-deficient-G'
            else:
                sig = 'c06:%s' % tag
            pending.append((sig, tag, st, what, dict(desc, transformation=tag)))
        if st0 != 'optimal':
            report('base-not-optimal:%s' % ('coneqp' if qp else 'conelp'), 'planted well-posed %s ends %s with default options' % ('QP' if qp else 'cone LP', st0), st0)
            continue
        variants = []
        # dense / sparse
        cs, Gs, hs, As, bs, Ps = PR.to_cvx(cvxopt, pr, sparse=True)
        variants.append(('sparse', lambda: solve(solvers.coneqp, Ps, c, Gs, h, dims, As, b) if qp else solve(solvers.conelp, c, Gs, h, dims, As, b), 1.0))
        # junk in the unreferenced upper triangles
        cj, Gj, hj, Aj, bj, Pj = PR.to_cvx(cvxopt, pr, junk=rng)
        variants.append(('upper-triangle-junk', lambda: solve(solvers.coneqp, Pj, c, Gj, hj, dims, A, b) if qp else solve(solvers.conelp, c, Gj, hj, dims, A, b), 1.0))
        # every kktsolver name the entry point accepts
        for k in (['ldl', 'ldl2', 'chol', 'chol2'] if qp else ['ldl', 'ldl2', 'qr', 'chol', 'chol2']):
            variants.append(('kktsolver=' + k, (lambda k=k: base(kktsolver=k)), 1.0))
        # objective scaling
        al = rng.choice([2.0, 0.5, 4.0])
        if qp: variants.append(('scale-objective', lambda: solve(solvers.coneqp, P * al, c * al, G, h, dims, A, b), al))
        else: variants.append(('scale-objective', lambda: solve(solvers.conelp, c * al, G, h, dims, A, b), al))
        # variable permutation
        perm = list(range(pr.n)); rng.shuffle(perm)
        Gp, Ap, cp_ = G[:, perm], A[:, perm], c[perm]
        if qp: variants.append(('permute-variables', lambda: solve(solvers.coneqp, P[perm, perm] if False else matrix([[ (P[max(perm[i],perm[j]), min(perm[i],perm[j])]) for i in range(pr.n)] for j in range(pr.n)]), cp_, Gp, h, dims, Ap, b), 1.0))
        else: variants.append(('permute-variables', lambda: solve(solvers.conelp, cp_, Gp, h, dims, Ap, b), 1.0))
        # row permutation inside the 'l' block
        if dims['l'] > 1:
            rp = list(range(dims['l'])); rng.shuffle(rp)
            rows = rp + list(range(dims['l'], pr.N))
            Gr, hr = G[rows, :], h[rows]
            variants.append(('permute-l-rows', (lambda Gr=Gr, hr=hr: solve(solvers.coneqp, P, c, Gr, hr, dims, A, b) if qp else solve(solvers.conelp, c, Gr, hr, dims, A, b)), 1.0))
        # re-encode the last 'l' row as a 1-dimensional 'q' cone / order-1 's' cone (moves the row behind the l block)
        if dims['l'] >= 1:
            L = dims['l']
            rows = list(range(L - 1)) + [L - 1] + list(range(L, pr.N))     # same order: the row L-1 becomes the first q block
            dq = {'l': L - 1, 'q': [1] + dims['q'], 's': dims['s']}
            variants.append(('l-row-as-q1', (lambda dq=dq: solve(solvers.coneqp, P, c, G, h, dq, A, b) if qp else solve(solvers.conelp, c, G, h, dq, A, b)), 1.0))
            if not dims['q']:
                ds_ = {'l': L - 1, 'q': [], 's': [1] + dims['s']}
                variants.append(('l-row-as-s1', (lambda ds_=ds_: solve(solvers.coneqp, P, c, G, h, ds_, A, b) if qp else solve(solvers.conelp, c, G, h, ds_, A, b)), 1.0))
        # start points (the planted strictly feasible pair)
        w = pr.wit
        if not qp:
            ps = {'x': matrix(w['x'], (pr.n, 1), 'd'), 's': matrix(w['s'], (pr.N, 1), 'd')}
            dsd = {'y': matrix(w['y'], (pr.p, 1), 'd'), 'z': matrix(w['z'], (pr.N, 1), 'd')}
            variants.append(('start-points', lambda: solve(solvers.conelp, c, G, h, dims, A, b, primalstart=ps, dualstart=dsd), 1.0))
            # one of the two only: the other half is computed by the solver (least-squares start, shifted into the cone)
            variants.append(('primalstart-only', lambda: solve(solvers.conelp, c, G, h, dims, A, b, primalstart=ps), 1.0))
            variants.append(('dualstart-only', lambda: solve(solvers.conelp, c, G, h, dims, A, b, dualstart=dsd), 1.0))
        else:
            iv = {'x': matrix(w['x'], (pr.n, 1), 'd'), 's': matrix(w['s'], (pr.N, 1), 'd'), 'y': matrix(w['y'], (pr.p, 1), 'd'), 'z': matrix(w['z'], (pr.N, 1), 'd')}
            variants.append(('initvals', lambda: solve(solvers.coneqp, P, c, G, h, dims, A, b, initvals=iv), 1.0))
            for keys in (('x', 's'), ('y', 'z'), tuple(rng.sample(['x', 's', 'y', 'z'], rng.randint(1, 3)))):
                ivk = {k: iv[k] for k in keys}
                variants.append(('initvals-' + ''.join(sorted(keys)), lambda ivk=ivk: solve(solvers.coneqp, P, c, G, h, dims, A, b, initvals=ivk), 1.0))
        # wrappers
        if not hasQS:
            if qp: variants.append(('qp-wrapper', lambda: solve(solvers.qp, P, c, G, h, A, b), 1.0))
            else:
                variants.append(('lp-wrapper', lambda: solve(solvers.lp, c, G, h, A, b), 1.0))
                variants.append(('lp-glpk', lambda: solve(solvers.lp, c, G, h, A, b, solver='glpk', options={'glpk': {'msg_lev': 'GLP_MSG_OFF', 'tm_lim': 5000}}), 1.0))
        elif not qp and not dims['s']:
            L = dims['l']; offs = L
            Gq, hq = [], []
            for m in dims['q']:
                Gq.append(G[offs:offs + m, :]); hq.append(h[offs:offs + m]); offs += m
            variants.append(('socp-wrapper', lambda: solve(solvers.socp, c, G[:L, :], h[:L], Gq, hq, A, b), 1.0))
        elif not qp and not dims['q']:
            L = dims['l']; offs = L
            Gs_, hs_ = [], []
            for m in dims['s']:
                Gs_.append(G[offs:offs + m * m, :]); hs_.append(matrix(h[offs:offs + m * m], (m, m))); offs += m * m
            variants.append(('sdp-wrapper', lambda: solve(solvers.sdp, c, G[:L, :], h[:L], Gs_, hs_, A, b), 1.0))
        for tag, fn, scale in variants:
            st, v, r = fn()
            evals += 1; pairs += 1
            tagcount[tag] = tagcount.get(tag, 0) + 1
            distinct.add((i, tag))
            if ((rankPG is not None and rankPG < pr.n) if qp else (rankG < pr.n)) and (tag.startswith('kktsolver=chol2') or (not hasQS and not tag.startswith('kktsolver='))):
                chol2_runs[0] += 1          # runs of kkt_chol2 on a rank-deficient G: the population of the listed finding
            if st.startswith('ValueError') and tag == 'kktsolver=chol2' and hasQS and 'kkt_chol2' in st:
                continue            # documented: chol2 supports only the 'l' cone; rejected before solving
            if st != 'optimal':
                report('status-differs:' + tag,
                       'presentation %s of a planted %s gives %s, the base presentation is optimal' % (tag, 'QP' if qp else 'cone LP', st), st)
            elif not val_close(v, scale * v0):
                report('value-differs:' + tag, 'presentation %s gives optimal value %.9g, expected %.9g' % (tag, v, scale * v0))
    # a presentation that ends 'unknown' on at most 1% of the instances (and at most 3) is a rare numerical breakdown of that
    # KKT path, reported under its own signature; anything more frequent is a systematic disagreement
    byTag = {}
    for sig, tag, st, what, case in pending: byTag.setdefault(sig, []).append((tag, st, what, case))
    for sig, items in byTag.items():
        tag = items[0][0].replace('status-differs:', '')
        total = tagcount.get(tag, npairs)
        if os.environ.get('VERIF_DEBUG'): print('DEBUG', sig, tag, total, [x[1] for x in items])
        rare = all(st == 'unknown' or (st.startswith('ValueError') and 'domain error' in st) for _, st, _, _ in items) and len(items) <= max(1, min(3, total // 100 + 1)) and len(items) * 100 <= max(100, total)
        # the listed chol2 finding concerns occasional instances; failures on most runs of that population are something else
        systematic = sig == 'c06:chol2-rank-deficient-G' and len(items) >= 4 and len(items) > 0.5 * chol2_runs[0]
        for _, st, what, case in items:
            ctx.violation(sig + (':systematic' if systematic else '') + (':rare-numerical-breakdown' if rare and sig != 'c06:chol2-rank-deficient-G' else ''), what, case)
    ctx.cov['chol2_rank_deficient_population'] = '%d runs of kkt_chol2 on a rank-deficient G in this run (the population of the listed finding; varies with the seed)' % chol2_runs[0]
    ctx.cov.update({'evaluations': evals, 'distinct_nontrivial': len(distinct),
                    'rule': 'dispatch: 9 entry points x %d kktsolver values (exhaustive); metamorphic: %d planted well-posed cone LPs/QPs '
                            '(random cone structure l/q/s, equality constraints) x all presentations of the property list that apply; '
                            'distinct = (instance, transformation) or (entry point, name)' % (len(NAMES) + 1, npairs),
                    'protocol_lines_compared': len(lines), 'disagreements_checked': dis, 'metamorphic_pairs': pairs, 'unknown_but_converged_to_1e-5_accepted': near[0], 'exhaustive': False})
    ctx.samples += lines[:3] + ['metamorphic tags: sparse, upper-triangle-junk, kktsolver=*, scale-objective, permute-variables, '
                                'permute-l-rows, l-row-as-q1, l-row-as-s1, start-points/initvals, lp/qp/socp/sdp wrappers, lp-glpk']

def search(ctx, why): return
def replay(ctx, payload): correspond(ctx)
