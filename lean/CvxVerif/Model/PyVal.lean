/-!
A small model of the Python values that occur in solver options and `kktsolver` arguments, with the
fragment of Python semantics the option-validation code uses: `isinstance`, `is None`, ordered comparison
(raising `TypeError` on non-numbers), short-circuit `and`/`or`/`not`, `raise`.  Core Lean only.
The generated modules `CvxVerif/Gen/*.lean` are written against these combinators.
-/
namespace CvxVerif.Py

inductive Val where
  | none
  | bool (b : Bool)
  | int (n : Int)
  | flt (q : Rat)          -- a finite double, as the rational it denotes
  | inf (neg : Bool)
  | nan
  | str (s : String)
  | other                  -- any other object (list, dict, matrix, callable ...)
deriving Repr, DecidableEq

abbrev M := Except String

def Val.isNone : Val → Bool
  | .none => true
  | _ => false

/-- `isinstance(v, tys)`; `bool` is a subclass of `int`; `long` is `int` (coneprog.py l.25) -/
def Val.isInst (tys : List String) : Val → Bool
  | .bool _ => tys.contains "int" || tys.contains "long" || tys.contains "bool"
  | .int _ => tys.contains "int" || tys.contains "long"
  | .flt _ => tys.contains "float"
  | .inf _ => tys.contains "float"
  | .nan => tys.contains "float"
  | .str _ => tys.contains "str"
  | _ => false

/-- numeric view: finite value, ±∞ or NaN -/
inductive Num where
  | fin (q : Rat)
  | inf (neg : Bool)
  | nan
deriving Repr, DecidableEq

def Val.num : Val → Option Num
  | .bool b => some (.fin (if b then 1 else 0))
  | .int n => some (.fin n)
  | .flt q => some (.fin q)
  | .inf n => some (.inf n)
  | .nan => some .nan
  | _ => Option.none

def Num.lt : Num → Num → Bool
  | .nan, _ => false
  | _, .nan => false
  | .fin a, .fin b => a < b
  | .fin _, .inf neg => !neg
  | .inf neg, .fin _ => neg
  | .inf a, .inf b => a && !b

def Num.eq : Num → Num → Bool
  | .fin a, .fin b => a == b
  | .inf a, .inf b => a == b
  | _, _ => false

inductive Cmp where | lt | le | gt | ge
deriving Repr, DecidableEq

def Num.cmp (op : Cmp) (a b : Num) : Bool :=
  match op with
  | .lt => a.lt b
  | .le => a.lt b || a.eq b
  | .gt => b.lt a
  | .ge => b.lt a || a.eq b

/-- Python 3 ordered comparison: defined on numbers, `TypeError` otherwise -/
def Val.cmp (op : Cmp) (a b : Val) : M Bool :=
  match a.num, b.num with
  | some x, some y => pure (x.cmp op y)
  | _, _ => throw "TypeError"

def pyOr (a b : M Bool) : M Bool := do if (← a) then pure true else b
def pyAnd (a b : M Bool) : M Bool := do if (← a) then b else pure false
def pyNot (a : M Bool) : M Bool := do pure (!(← a))
def pyIf {α : Type} (c : M Bool) (a b : M α) : M α := do if (← c) then a else b
def raiseIf (c : M Bool) (exc : String) : M Unit := do if (← c) then throw exc else pure ()

/-- `d.get(key, default)` on a dictionary given as a lookup function -/
def dget (d : String → Option Val) (key : String) (default : Val) : Val := (d key).getD default

/-- `d[key]` raising `KeyError` -/
def dindex (d : String → Option Val) (key : String) : M Val :=
  match d key with
  | some v => pure v
  | Option.none => throw "KeyError"

/-- `v in (s₁, s₂, …)` for a tuple of strings (uses `==`, so only strings can be members) -/
def Val.inStrs (v : Val) (l : List String) : Bool :=
  match v with
  | .str s => l.contains s
  | _ => false

def lookup (env : List (String × Val)) (k : String) : Val :=
  match env.find? (·.1 == k) with
  | some p => p.2
  | Option.none => Val.none

end CvxVerif.Py
