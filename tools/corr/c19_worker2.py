"""worker of the C19 LAPACK / generic-product probes: executes wrapper calls given as JSON lines on stdin in the guard-page build.
A case is announced before it runs so that a crash of the interpreter can be attributed."""
import sys, json, gc
build = sys.argv[1]
sys.path.insert(0, build)
import cvxopt
from cvxopt import matrix, lapack, base, spmatrix, sparse, spdiag

def mk(spec):
    if spec is None: return None
    tc, m, n = spec
    if tc == 'i': return matrix([i + 1 for i in range(m * n)], (m, n), 'i')     # identity pivots: the only content LAPACK is defined on without a factorisation
    if tc == 'd':
        M = matrix([float((i * 7) % 5 - 2) for i in range(m * n)], (m, n), 'd')
    else:
        M = matrix([complex((i * 7) % 5 - 2, (i * 3) % 4 - 1) for i in range(m * n)], (m, n), 'z')
    for i in range(min(m, n)): M[i, i] += 9.0          # mostly nonsingular / positive diagonals
    return M

def mksp(spec):
    tc, m, n, seed = spec
    I, J, V = [], [], []
    for j in range(n):
        for i in range(m):
            if (i * 3 + j * 5 + seed) % 3 == 0:
                I.append(i); J.append(j); V.append(float((i + 2 * j) % 4 + 1) if tc == 'd' else complex((i + 2 * j) % 4 + 1, (i + j) % 3 - 1))
    return spmatrix(V, I, J, (m, n), tc)

def val(v, dense=False):
    if 'mat' in v: return mk(v['mat'])
    if 'sp' in v: return matrix(mksp(v['sp'])) if dense else mksp(v['sp'])
    if 'int' in v: return v['int']
    if 'chr' in v: return v['chr']
    if 'flt' in v: return v['flt']
    if 'num' in v: return complex(*v['num']) if isinstance(v['num'], list) else v['num']
    if 'bool' in v: return bool(v['bool'])
    if 'obj' in v: return 7 if v['obj'] == 'int' else None
    raise ValueError(v)

def pyobj(d):
    """a Python object from its JSON description (constructor probes)"""
    t = d['t']
    if t == 'num': return complex(*d['v']) if isinstance(d['v'], list) else d['v']
    if t == 'none': return None
    if t == 'str': return d['v']
    if t == 'list': return [pyobj(x) for x in d['v']]
    if t == 'tuple': return tuple(pyobj(x) for x in d['v'])
    if t == 'range': return range(d['v'])
    if t == 'mat': return mk(d['v'])
    if t == 'sp': return mksp(d['v'])
    if t == 'sp_big': return spmatrix([0, 0], [2**40, 0], [1, 1])
    if t == 'bytes': return bytes(d['v'])
    if t == 'bytearray': return bytearray(d['v'])
    raise ValueError(t)

def ctor_apply(case, args, kw, dense=False):
    f = {'matrix': matrix, 'spmatrix': spmatrix, 'sparse': (matrix if dense else sparse), 'spdiag': spdiag}.get(case['routine'])
    if f is not None: return f(*args, **kw)
    a, b = args[0], (args[1] if len(args) > 1 else None)
    op = case['routine']
    if op == 'add': r = a + b
    elif op == 'sub': r = a - b
    elif op == 'mul': r = a * b
    elif op == 'div': r = a / b
    elif op == 'pow': r = a ** b
    elif op == 'iadd': a += b; r = a
    elif op == 'isub': a -= b; r = a
    elif op == 'imul': a *= b; r = a
    elif op == 'idiv': a /= b; r = a
    elif op == 'neg': r = -a
    elif op == 'pos': r = +a
    elif op == 'abs': r = abs(a)
    elif op == 'bool': r = bool(a)
    elif op == 'len': r = len(a)
    elif op == 'trans': r = a.trans() if rng_flag(case) else a.T
    elif op == 'ctrans': r = a.ctrans() if rng_flag(case) else a.H
    elif op == 'size': a.size = tuple(args[1]); r = a
    elif op == 'V': a.V = b; r = a
    elif op == 'real': r = a.real()
    elif op == 'imag': r = a.imag()
    elif op in ('exp', 'log', 'sqrt', 'sin', 'cos'):
        import cvxopt
        r = getattr(cvxopt, op)(a)
    elif op in ('mulf', 'divf', 'maxf', 'minf'):
        import cvxopt
        r = getattr(cvxopt, op[:-1])(*args)
    elif op == 'fromfile':
        r = None
    else: raise ValueError(op)
    return r

TWIN_OPS = {'add', 'sub', 'mul', 'div', 'iadd', 'isub', 'imul', 'idiv', 'neg', 'pos', 'abs', 'bool', 'trans', 'ctrans', 'size', 'real', 'imag', 'sparse', 'mulf', 'divf'}          # (len of a sparse matrix counts the stored entries: documented)

def densify(o):
    if isinstance(o, spmatrix): return matrix(o)
    if isinstance(o, list): return [densify(x) for x in o]
    if isinstance(o, tuple): return tuple(densify(x) for x in o)
    return o

def flat(o):
    if isinstance(o, (matrix, spmatrix)): return ('m', tuple(o.size), [complex(v) for v in matrix(o)])
    if isinstance(o, (bool, int, float, complex)): return ('n', (), [complex(o)])
    return ('o', (), [])

def ctor_case(case):
    """constructors, block constructors, conversions and arithmetic with operands of any kind and shape; with `twin` the same operation on
    the dense images of all sparse operands must give the same size and values"""
    args = [pyobj(a) for a in case['pos']]; kw = {k: pyobj(v) for k, v in case.get('kw', {}).items()}
    r = ctor_apply(case, args, kw)
    for o in (r if isinstance(r, (list, tuple)) else [r]):
        if isinstance(o, spmatrix):
            cp, ri, vv = o.CCS; cp, ri = list(cp), list(ri); m_, n_ = o.size
            okc = len(cp) == n_ + 1 and cp[0] == 0 and all(cp[j] <= cp[j + 1] for j in range(n_)) and cp[-1] == len(ri) == len(vv) and \
                  all(0 <= ri[q] < m_ for q in range(len(ri))) and all(ri[q] < ri[q + 1] for j in range(n_) for q in range(cp[j], cp[j + 1] - 1))
            if not okc: return 'ccs-invalid'
            list(matrix(o))
        elif hasattr(o, 'size'): list(o)
    if case.get('twin') and case['routine'] in TWIN_OPS:
        args2 = [densify(pyobj(a)) for a in case['pos']]; kw2 = {k: densify(pyobj(v)) for k, v in case.get('kw', {}).items()}
        if not any(isinstance(x, spmatrix) for x in [pyobj(a) for a in case['pos']]) and case['routine'] != 'sparse': return 'ok'
        if case['routine'] == 'sparse' and args2 and args2[0] == []: return 'ok'          # sparse([]) is 0 x 0, matrix([]) is 0 x 1
        try: r2 = ctor_apply(case, args2, kw2, dense=True)
        except Exception: return 'ok'
        f1, f2 = flat(r), flat(r2)
        if f1[0] != f2[0] or f1[1] != f2[1] or len(f1[2]) != len(f2[2]): return 'twin-differs'
        for x, y in zip(f1[2], f2[2]):
            if abs(x - y) > 1e-9 * (1 + abs(x) + abs(y)): return 'twin-differs'
    return 'ok'
def rng_flag(case): return case['id'] % 2 == 0

class CCSInvalid(Exception): pass

def base_case(case):
    """generic products / elementwise operations of base.c with dense and sparse operands; with `twin` the call is repeated with every
    sparse operand replaced by its dense image and the results are compared"""
    def call(dense):
        kw = {k: val(v, dense) for k, v in case['args'].items()}
        pos = [kw.pop(k) for k in case.get('pos', [])]
        r = getattr(base, case['routine'])(*pos, **kw)
        outs = pos + [kw[k] for k in sorted(kw)] + [r]
        for o in outs:
            if isinstance(o, spmatrix):
                cp, ri, vv = o.CCS; cp, ri = list(cp), list(ri)
                m_, n_ = o.size
                okc = len(cp) == n_ + 1 and cp[0] == 0 and all(cp[j] <= cp[j + 1] for j in range(n_)) and cp[-1] == len(ri) == len(vv) and \
                      all(0 <= ri[q] < m_ for q in range(len(ri))) and all(ri[q] < ri[q + 1] for j in range(n_) for q in range(cp[j], cp[j + 1] - 1))
                if not okc: raise CCSInvalid()
        return [list(matrix(o)) + list(o.size) for o in outs if hasattr(o, 'size')]
    # partial=True with a sparse output operand (y of axpy, C of gemm / syrk): only the stored entries of the output are updated, the pattern
    # stays; their new values are those of the dense computation (syrk: inside the uplo triangle)
    part = case['args'].get('partial', {}).get('bool') and case['routine'] in ('axpy', 'gemm', 'syrk')
    if part:
        outn = 'y' if case['routine'] == 'axpy' else 'C'
        if 'sp' in case['args'][outn]:
            kw = {k: val(v, False) for k, v in case['args'].items()}
            pos = [kw[k] for k in case.get('pos', [])]
            named = {k: v for k, v in kw.items() if k not in case.get('pos', [])}
            O = kw[outn]; pat = list(zip(list(O.I), list(O.J)))
            getattr(base, case['routine'])(*pos, **named)
            if list(zip(list(O.I), list(O.J))) != pat: return 'partial-differs'
            kwd = {k: val(v, True) for k, v in case['args'].items()}
            posd = [kwd[k] for k in case.get('pos', [])]
            namedd = {k: v for k, v in kwd.items() if k not in case.get('pos', []) and k != 'partial'}
            try: getattr(base, case['routine'])(*posd, **namedd)
            except Exception: return 'ok'
            D = kwd[outn]; tri = case['args'].get('uplo', {'chr': 'L'})['chr'] if case['routine'] == 'syrk' else None
            for (i, j), v in zip(pat, list(O.V)):
                if tri and ((tri == 'L' and i < j) or (tri == 'U' and i > j)): continue
                if abs(complex(v) - complex(D[i, j])) > 1e-9 * (1 + abs(complex(D[i, j]))): return 'partial-differs'
            return 'ok'
    try: o1 = call(False)
    except CCSInvalid: return 'ccs-invalid'
    if case.get('twin') and any('sp' in v for v in case['args'].values()):
        try: o2 = call(True)
        except Exception: return 'ok'
        if len(o1) != len(o2): return 'twin-differs'
        tri = case['args'].get('uplo', {'chr': 'L'})['chr'] if case['routine'] == 'syrk' else None
        for a, b in zip(o1, o2):
            if len(a) != len(b): return 'twin-differs'
            m_, n_ = int(a[-2]), int(a[-1])
            for idx, (x, y) in enumerate(zip(a[:-2], b[:-2])):
                i, j = idx % max(m_, 1), idx // max(m_, 1)
                if tri and m_ == n_ and ((tri == 'L' and i < j) or (tri == 'U' and i > j)): continue      # syrk: the other triangle is not referenced
                if abs(complex(x) - complex(y)) > 1e-9 * (1 + abs(complex(x))): return 'twin-differs'
    return 'ok'

SENT = 777.0
def embed_case(case):
    """the same call twice: on plain matrices, and with every array argument embedded in a larger buffer (sentinel-filled, offset > 0,
    leading dimension > rows) and all dimensions passed explicitly.  Both must give the same numbers in the embedded positions, and the
    embedded call must leave every sentinel alone."""
    mod = lapack
    def build():
        kw = {}
        for name, v in case['args'].items():
            if 'mat' in v: kw[name] = mk(v['mat'])
            elif 'int' in v: kw[name] = v['int']
            elif 'chr' in v: kw[name] = v['chr']
            elif 'flt' in v: kw[name] = v['flt']
            elif 'obj' in v: kw[name] = 7 if v['obj'] == 'int' else None
        kw.update(case['dims'])
        return kw
    kw1 = build()
    try: r1 = getattr(mod, case['routine'])(**kw1)
    except Exception as e: return 'skip-plain-' + type(e).__name__
    kw2 = build(); pad, off0 = case.get('pad', 2), case.get('off', 3)
    # the same offset for every array, or a different one for each (a wrapper that adds the offset of one argument to another is invisible with equal offsets)
    names_ = sorted(case['emb'], reverse=(case.get('distinct') == 2))
    offs = {an: off0 + (3 * i if case.get('distinct') else 0) for i, an in enumerate(names_)}
    layout = {}
    for an, e in case['emb'].items():
        X = kw2[an]; m, n = X.size; off = offs[an]
        if e.get('ld'):
            ld = max(1, m) + pad
            E = matrix(SENT, (off + ld * max(n, 1), 1), X.typecode)
            for j in range(n):
                for i in range(m): E[off + i + j * ld] = X[i, j]
            kw2[e['ld']] = ld
        else:
            ld = m
            E = matrix(SENT, (off + m * n + pad, 1), X.typecode)
            for k in range(m * n): E[off + k] = X[k]
        kw2[e['off']] = off
        kw2[an] = E; layout[an] = (m, n, ld)
    try: r2 = getattr(mod, case['routine'])(**kw2)
    except Exception as e: return 'embed-raises-%s' % type(e).__name__
    if r1 != r2: return 'return-differs'
    import math
    def bad(a, b):
        if isinstance(a, complex) or isinstance(b, complex):
            a, b = complex(a), complex(b)
            if any(math.isnan(t) for t in (a.real, a.imag, b.real, b.imag)): return not (math.isnan(a.real) == math.isnan(b.real) and math.isnan(a.imag) == math.isnan(b.imag))
            return abs(a - b) > 1e-7 * (1.0 + abs(a))
        if math.isnan(a) or math.isnan(b): return not (math.isnan(a) and math.isnan(b))
        return abs(a - b) > 1e-7 * (1.0 + abs(a))
    differs = None
    for an, v in kw1.items():
        if not hasattr(v, 'size'): continue
        if an in layout:
            m, n, ld = layout[an]; E = kw2[an]; off = offs[an]
            inside = set()
            for j in range(n):
                for i in range(m):
                    inside.add(off + i + j * ld)
                    if differs is None and bad(v[i, j], E[off + i + j * ld]): differs = 'result-differs-' + an
            for k in range(len(E)):
                if k not in inside and E[k] != SENT: return 'sentinel-changed-' + an          # (a write outside the documented block is reported first)
        else:
            w2 = kw2[an]
            if differs is None and (v.size != w2.size or any(bad(a, b) for a, b in zip(v, w2))): differs = 'result-differs-' + an
    return differs or 'ok'

for line in sys.stdin:
    case = json.loads(line)
    print('START %d' % case['id']); sys.stdout.flush()
    try:
        kw = {}
        if case['kind'] == 'embed':
            res = embed_case(case); kw = None; gc.collect()
            print('RESULT %d %s' % (case['id'], 'ok' if res == 'ok' else 'exc ' + res)); sys.stdout.flush(); continue
        if case['kind'] == 'anycall':
            from cvxopt import blas
            kw = {k: val(v) for k, v in case['args'].items()}
            getattr({'blas': blas, 'lapack': lapack, 'base': base}[case['module']], case['routine'])(**kw)
            for v in kw.values():
                if hasattr(v, 'size'): list(matrix(v))
            kw = None; gc.collect()
            print('RESULT %d ok' % case['id']); sys.stdout.flush(); continue
        if case['kind'] == 'ctor':
            res = ctor_case(case); gc.collect()
            print('RESULT %d %s' % (case['id'], 'ok' if res == 'ok' else 'exc ' + res)); sys.stdout.flush(); continue
        if case['kind'] == 'base':
            res = base_case(case); gc.collect()
            print('RESULT %d %s' % (case['id'], 'ok' if res == 'ok' else 'exc ' + res)); sys.stdout.flush(); continue
        for name, v in case['args'].items():
            if 'mat' in v: kw[name] = mk(v['mat'])
            elif 'int' in v: kw[name] = v['int']
            elif 'chr' in v: kw[name] = v['chr']
            elif 'flt' in v: kw[name] = v['flt']
            elif 'num' in v: kw[name] = complex(*v['num']) if isinstance(v['num'], list) else v['num']
            elif 'obj' in v: kw[name] = 7 if v['obj'] == 'int' else None
        mod = {'lapack': lapack, 'base': base}[case['kind']]
        getattr(mod, case['routine'])(**kw)
        # touch the results
        for v in kw.values():
            if hasattr(v, 'size'): list(v)
        kw = None; gc.collect()          # free the buffers now: the allocator verifies the canaries behind them
        print('RESULT %d ok' % case['id'])
    except Exception as e:
        kw = None; gc.collect()
        print('RESULT %d exc %s' % (case['id'], type(e).__name__))
    sys.stdout.flush()
