/-!
Record-level model of the fixed-format MPS reader and writer of `cvxopt.modeling.op` (`fromfile`, `tofile`).

A file is abstracted to its data records (the fixed character columns are cut by the harness, which is part of the trusted
base): ROWS, COLUMNS, RHS, RANGES, BOUNDS entries in file order.  `read` is the meaning the format gives to the supported
subset (N/L/G/E rows, one RHS / RANGES / BOUNDS vector, LO/UP/FX/FR/MI/PL bounds), in the order `fromfile` builds its
constraints; `write` is what `tofile` emits for a flattened linear program.  Core Lean only.
-/
namespace CvxVerif.Mps

inductive RTy where | N | L | G | E
deriving DecidableEq, Repr

structure File where
  rows : List (String × String)              -- (type field, label): the type is kept as text, unknown types are an error
  cols : List (String × String × Rat)        -- (column label, row label, value), two-entry lines already split
  rhs : List (String × String × Rat)         -- (vector label, row label, value)
  ranges : List (String × String × Rat)
  bounds : List (String × String × String × Rat)   -- (type field, vector label, column label, value)
deriving Repr

inductive Err where
  | rowType (t : String)        -- ValueError: unknown row type
  | noRow (l : String)          -- KeyError: no row label
  | noCol (l : String)          -- ValueError: unknown column label
  | repeated (l : String)       -- ValueError: repeated bound
  | boundType (t : String)      -- ValueError: unknown bound type
  | infeasible (l : String)     -- ValueError: constraint without variables that cannot hold
deriving DecidableEq, Repr

/-- a scalar constraint `coef·x + const ≤ 0` (or `= 0`); `coef` lists (column label, coefficient) for the columns that occur in it -/
structure Con where
  name : String
  coef : List (String × Rat)
  const : Rat
deriving DecidableEq, Repr

structure Lp where
  cols : List String              -- columns in order of first appearance
  obj : List (String × Rat)
  objconst : Rat
  ineqs : List Con                -- each `≤ 0`
  eqs : List Con                  -- each `= 0`
deriving DecidableEq, Repr

def parseRTy (t : String) : Option RTy :=
  if t = "N" then some .N else if t = "L" then some .L else if t = "G" then some .G else if t = "E" then some .E else none

/-- keep the first occurrence of every key -/
def dedup : List String → List String
  | [] => []
  | a :: t => a :: (dedup t).filter (· ≠ a)

/-- the value of the last entry for `key`, if any (a later entry overwrites an earlier one) -/
def lastVal (es : List (String × Rat)) (key : String) : Option Rat :=
  ((es.filter fun e => e.1 = key).getLast?).map (·.2)

/-- the columns occurring in row `r`, in order of first occurrence, each with its last value -/
def rowCoef (cols : List (String × String × Rat)) (r : String) : List (String × Rat) :=
  let es := (cols.filter fun e => e.2.1 = r).map fun e => (e.1, e.2.2)
  (dedup (es.map (·.1))).map fun c => (c, (lastVal es c).getD 0)

/-- only the vector with the first label counts -/
def firstVec (es : List (String × String × Rat)) : List (String × Rat) :=
  match es with
  | [] => []
  | e :: _ => (es.filter fun x => x.1 = e.1).map fun x => (x.2.1, x.2.2)

def neg (c : List (String × Rat)) : List (String × Rat) := c.map fun e => (e.1, -e.2)
def rabs (a : Rat) : Rat := if a < 0 then -a else a

/-- constraints of one row, in the order `fromfile` appends them: (inequalities, equalities) -/
def rowCons (label : String) (ty : RTy) (coef : List (String × Rat)) (rhs : Rat) (range : Option Rat) : List Con × List Con :=
  -- f = coef·x - rhs
  match ty with
  | .N => ([], [])
  | .L => (⟨label, coef, -rhs⟩ :: (match range with
            | some r => [⟨label ++ "_lb", neg coef, rhs - rabs r⟩]          -- f ≥ -|r|
            | none => []), [])
  | .G => (⟨label, neg coef, rhs⟩ :: (match range with
            | some r => [⟨label ++ "_ub", coef, -rhs - rabs r⟩]             -- f ≤ |r|
            | none => []), [])
  | .E => match range with
    | none => ([], [⟨label, coef, -rhs⟩])
    | some r =>
      if r = 0 then ([], [⟨label, coef, -rhs⟩])
      else if 0 < r then ([⟨label ++ "_lb", neg coef, rhs⟩, ⟨label ++ "_ub", coef, -rhs - r⟩], [])     -- 0 ≤ f ≤ r
      else ([⟨label ++ "_ub", coef, -rhs⟩, ⟨label ++ "_lb", neg coef, rhs + r⟩], [])                    -- r ≤ f ≤ 0

/-- bounds state of one column: lower (none = -inf), upper (none = +inf); default [0, +inf) -/
abbrev Bnd := Option Rat × Option Rat

def applyBound (b : Bnd) (ty : String) (col : String) (v : Rat) : Except Err Bnd :=
  if ty = "LO" then (if b.1 ≠ some 0 then .error (.repeated col) else .ok (some v, b.2))
  else if ty = "UP" then (if b.2 ≠ none then .error (.repeated col) else .ok (b.1, some v))
  else if ty = "FX" then (if b ≠ (some 0, none) then .error (.repeated col) else .ok (some v, some v))
  else if ty = "FR" then (if b ≠ (some 0, none) then .error (.repeated col) else .ok (none, none))
  else if ty = "MI" then (if b.1 ≠ some 0 then .error (.repeated col) else .ok (none, b.2))
  else if ty = "PL" then (if b.2 ≠ none then .error (.repeated col) else .ok b)
  else .error (.boundType ty)

def boundCons (col : String) (b : Bnd) : List Con × List Con :=
  match b with
  | (some l, some u) => if l = u then ([], [⟨"", [(col, 1)], -l⟩]) else ([⟨"", [(col, -1)], l⟩, ⟨"", [(col, 1)], -u⟩], [])
  | (some l, none) => ([⟨"", [(col, -1)], l⟩], [])
  | (none, some u) => ([⟨"", [(col, 1)], -u⟩], [])
  | (none, none) => ([], [])

def foldBounds (cols : List String) : List (String × String × Rat) → List (String × Bnd) → Except Err (List (String × Bnd))
  | [], st => .ok st
  | (ty, col, v) :: rest, st =>
    if ¬ cols.contains col then .error (.noCol col) else
    match applyBound ((st.lookup col).getD (some 0, none)) ty col v with
    | .error e => .error e
    | .ok b => foldBounds cols rest (st.map fun p => if p.1 = col then (p.1, b) else p)

/-- remove constraints without variables when they hold trivially, fail when they cannot hold -/
def pruneIneq : List Con → Except Err (List Con)
  | [] => .ok []
  | c :: t => if c.coef.isEmpty then (if 0 < c.const then .error (.infeasible c.name) else pruneIneq t)
              else (pruneIneq t).map (c :: ·)

def pruneEq : List Con → Except Err (List Con)
  | [] => .ok []
  | c :: t => if c.coef.isEmpty then (if c.const ≠ 0 then .error (.infeasible c.name) else pruneEq t)
              else (pruneEq t).map (c :: ·)

def firstBad (l : List (String × String)) : Option String :=
  (l.find? fun r => (parseRTy r.1).isNone).map (·.1)

/-- the linear program a file defines -/
def read (f : File) : Except Err Lp :=
  match firstBad f.rows with
  | some t => .error (.rowType t)
  | none =>
  -- row labels that can be referred to: L/G/E rows and the first N row
  let objLabel := (f.rows.find? fun r => r.1 = "N").map (·.2)
  let conRows := f.rows.filter fun r => r.1 ≠ "N"
  -- a repeated label re-creates the row: the last type counts, the position of the first occurrence is kept
  let labels := dedup (conRows.map (·.2))
  let known (l : String) : Bool := labels.contains l || objLabel = some l
  match f.cols.find? fun e => !known e.2.1 with
  | some e => .error (.noRow e.2.1)
  | none =>
  let rhs := firstVec f.rhs
  match rhs.find? fun e => !known e.1 with
  | some e => .error (.noRow e.1)
  | none =>
  let ranges := firstVec f.ranges
  match ranges.find? fun e => !labels.contains e.1 with
  | some e => .error (.noRow e.1)
  | none =>
  let cols := dedup (f.cols.map (·.1))
  match foldBounds cols (match f.bounds with
      | [] => []
      | b :: _ => (f.bounds.filter fun x => x.2.1 = b.2.1).map fun x => (x.1, x.2.2.1, x.2.2.2)) (cols.map fun c => (c, (some 0, none))) with
  | .error e => .error e
  | .ok bnds =>
  let tyOf (l : String) : RTy := (((conRows.filter fun r => r.2 = l).getLast?).bind fun r => parseRTy r.1).getD .L
  let perRow := labels.map fun l => rowCons l (tyOf l) (rowCoef f.cols l) ((lastVal rhs l).getD 0) (lastVal ranges l)
  let perBnd := bnds.map fun p => boundCons p.1 p.2
  let ineqs := (perRow.map (·.1)).flatten ++ (perBnd.map (·.1)).flatten
  let eqs := (perRow.map (·.2)).flatten ++ (perBnd.map (·.2)).flatten
  match pruneIneq ineqs, pruneEq eqs with
  | .error e, _ => .error e
  | _, .error e => .error e
  | .ok i, .ok e =>
    let obj := match objLabel with | some l => rowCoef f.cols l | none => []
    let objc := match objLabel with | some l => -((lastVal rhs l).getD 0) | none => 0
    .ok ⟨cols, obj, objc, i, e⟩

/-! ### writer -/

/-- a flattened linear program: scalar columns, scalar rows (`L` or `E`) with right-hand sides, coefficients `A row col`,
objective coefficients `c col` -/
structure Flat where
  cols : List String
  rows : List (String × RTy × Rat)       -- label, type (L or E), right-hand side
  A : String → String → Rat
  c : String → Rat

def nzEntries (p : Flat) (col : String) : List (String × String × Rat) :=
  (if p.c col ≠ 0 then [(col, "cost", p.c col)] else []) ++
  p.rows.filterMap fun r => if p.A r.1 col ≠ 0 then some (col, r.1, p.A r.1 col) else none

/-- the nonzero entries of a column; a column without any is declared by an explicit zero in the objective row -/
def colEntries (p : Flat) (col : String) : List (String × String × Rat) :=
  if (nzEntries p col).isEmpty then [(col, "cost", 0)] else nzEntries p col

def showRTy : RTy → String | .N => "N" | .L => "L" | .G => "G" | .E => "E"

/-- what `tofile` writes -/
def write (p : Flat) : File :=
  { rows := ("N", "cost") :: p.rows.map fun r => (showRTy r.2.1, r.1),
    cols := p.cols.flatMap (colEntries p),
    rhs := p.rows.map fun r => ("", r.1, r.2.2),
    ranges := [],
    bounds := p.cols.map fun c => ("FR", "", c, 0) }

end CvxVerif.Mps
