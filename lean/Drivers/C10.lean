import CvxVerif.Gen.Faults
import CvxVerif.Model.Proto
open CvxVerif CvxVerif.Faults CvxVerif.Gen.Faults CvxVerif.Proto

def showOutcome : Outcome → String
  | .valueError => "valueError"
  | .unknown => "unknown"
  | .recovered => "recovered"
  | .retry => "retry"
  | .escape => "escape"
  | .bad w => "bad:" ++ w.replace " " "_"

def stepLine (u : Unit) (line : String) : Unit × String :=
  match words line with
  | ["fault", solver, ln, i0, st, rm, ro] =>
    match ln.toNat? with
    | none => (u, "bad-op")
    | some l =>
      match sites.find? (fun s => s.solver == solver && s.line == l) with
      | none => (u, "no-site")
      | some s =>
        let c : Ctx := ⟨i0 == "1", st == "1", rm == "1", ro == "1"⟩
        (u, s!"{s.kind} {showOutcome (outcome s c)}")
  | _ => (u, "bad-op")

def main : IO Unit := loop stepLine ()
