/-! Line-protocol helpers shared by the model drivers (core Lean only). -/
namespace CvxVerif.Proto

def words (s : String) : List String :=
  (s.splitOn " ").filter (· ≠ "")

def stripNl (s : String) : String :=
  let s := if s.endsWith "\n" then (s.dropEnd 1).toString else s
  if s.endsWith "\r" then (s.dropEnd 1).toString else s

/-- comma separated naturals, "-" for the empty list -/
def natList? (s : String) : Option (List Nat) :=
  if s = "-" then some [] else (s.splitOn ",").mapM (·.toNat?)

def intList? (s : String) : Option (List Int) :=
  if s = "-" then some [] else (s.splitOn ",").mapM (·.toInt?)

def showNats (l : List Nat) : String :=
  if l.isEmpty then "-" else ",".intercalate (l.map toString)

def showInts (l : List Int) : String :=
  if l.isEmpty then "-" else ",".intercalate (l.map toString)

def parseRat (s : String) : Option Rat :=
  match s.splitOn "/" with
  | [a] => a.toInt?.map (fun n => (n : Rat))
  | [a, b] => match a.toInt?, b.toNat? with
    | some n, some d => some (mkRat n d)
    | _, _ => none
  | _ => none

def showRat (q : Rat) : String := if q.den == 1 then toString q.num else s!"{q.num}/{q.den}"

/-- run `step` over stdin lines, printing one output line per input line -/
partial def loop {σ : Type} (step : σ → String → σ × String) (init : σ) : IO Unit := do
  let h ← IO.getStdin
  let out ← IO.getStdout
  let rec go (s : σ) : IO Unit := do
    let line ← h.getLine
    if line.isEmpty then return ()
    let (s', o) := step s (stripNl line)
    out.putStrLn o
    go s'
  go init
  out.flush

end CvxVerif.Proto
