import CvxVerif.Gen.DecideStart
import CvxVerif.Props.C01
import Mathlib.Tactic.Module
import Mathlib.Tactic.FieldSimp
import Mathlib.Tactic.Linarith

/-!
C01 — the starting-point shortcut of `conelp` (the early `'optimal'` return taken when the least-squares starting points happen to
be feasible with a small gap), regenerated from coneprog.py on every run (`Gen/DecideStart.lean`).
-/
namespace CvxVerif.C01
open CvxVerif.LAM CvxVerif.Gen.DecideStart

variable {K X Y Z : Type} [Field K] [LinearOrder K] [IsStrictOrderedRing K]
  [AddCommGroup X] [Module K X] [AddCommGroup Y] [Module K Y] [AddCommGroup Z] [Module K Z]

/-- **Soundness of the early 'optimal' return.** If the shortcut is taken, the returned starting point satisfies the documented
residual bounds against the caller's data, the gap criterion, and both slacks are nonnegative (`ts, tz ≤ 0`).  (Before the repair
recorded in known_findings.json the residual conditions were missing from the acceptance test and this theorem could not be proved.) -/
theorem C01_start_point_sound (E : Env K X Y Z) (hE : E.Lawful) (i : In K X Y Z) (ABSTOL FEASTOL RELTOL ts tz : K) (KKTREG : Option K)
    (hx0 : 0 < i.resx0) (hy0 : 0 < i.resy0) (hz0 : 0 < i.resz0) :
    let st := stats E i
    accept ABSTOL FEASTOL KKTREG RELTOL st.dres st.gap st.pres st.relgap ts tz = true →
    E.nX (E.At i.y + E.Gt i.z + i.c) ≤ FEASTOL * i.resx0 ∧
    E.nY (E.A i.x - i.b) ≤ FEASTOL * i.resy0 ∧
    E.nZ (i.s + E.G i.x - i.h) ≤ FEASTOL * i.resz0 ∧
    (st.gap ≤ ABSTOL ∨ ∃ rg, st.relgap = some rg ∧ rg ≤ RELTOL) ∧ ts ≤ 0 ∧ tz ≤ 0 ∧ KKTREG = none := by
  intro st h
  simp only [accept, Bool.and_eq_true, Bool.or_eq_true, decide_eq_true_eq, Bool.not_eq_true'] at h
  obtain ⟨⟨⟨⟨hts, htz⟩, hgap⟩, hk⟩, hpres, hdres⟩ := h
  have e1 : E.At i.y + E.Gt i.z + i.c = (1:K) • E.Gt i.z + (1:K) • ((1:K) • E.At i.y + (1:K) • i.c) := by module
  have e2 : E.A i.x - i.b = (-1 : K) • ((-(1:K)) • E.A i.x + (1:K) • i.b) := by module
  have e3 : i.s + E.G i.x - i.h = (1:K) • E.G i.x + (0:K) • (0 : Z) + (1:K) • i.s + (-(1:K)) • i.h := by module
  refine ⟨?_, ?_, ?_, ?_, hts, htz, ?_⟩
  · rw [e1]
    have : st.dres = E.nX ((1:K) • E.Gt i.z + (1:K) • ((1:K) • E.At i.y + (1:K) • i.c)) / i.resx0 := rfl
    rw [this, div_le_iff₀ hx0] at hdres; exact hdres
  · rw [e2, hE.nY_smul]
    have h1 : E.nY ((-(1:K)) • E.A i.x + (1:K) • i.b) / i.resy0 ≤ st.pres := by first | exact le_max_left _ _ | exact le_max_right _ _
    have h2 := le_trans h1 hpres
    rw [div_le_iff₀ hy0] at h2
    simpa using h2
  · rw [e3]
    have h1 : E.nZ ((1:K) • E.G i.x + (0:K) • (0 : Z) + (1:K) • i.s + (-(1:K)) • i.h) / i.resz0 ≤ st.pres := by first | exact le_max_left _ _ | exact le_max_right _ _
    have h2 := le_trans h1 hpres
    rw [div_le_iff₀ hz0] at h2; exact h2
  · rcases hgap with hg | ⟨h1, h2⟩
    · exact Or.inl hg
    · right
      cases hrg : st.relgap with
      | none => rw [hrg] at h1; simp at h1
      | some rg => rw [hrg] at h2; exact ⟨rg, rfl, by simpa [optCmp] using h2⟩
  · cases KKTREG with
    | none => rfl
    | some v => simp at hk

/-- the early return reports the objectives of the returned point, `'optimal'`, zero iterations, and symmetrises `s` and `z` correctly -/
theorem C01_start_point_fields :
    (fields.filter fun kv => ["status", "primal objective", "dual objective", "primal infeasibility", "dual infeasibility", "gap", "iterations"].contains kv.1)
      = [("status", "'optimal'"), ("gap", "gap"), ("primal objective", "cx"), ("dual objective", "-(by + hz)"), ("primal infeasibility", "pres"),
         ("dual infeasibility", "dres"), ("iterations", "0")] ∧
    symm = [("s", symmWalk), ("z", symmWalk)] := by decide

end CvxVerif.C01
