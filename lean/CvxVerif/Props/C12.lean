import CvxVerif.Proofs.PWL

/-!
C12 — op.solve() solves the piecewise-linear problem that was written down.

What is proved here is the reference translation used as the "independently formed linear program" of the property, and the
optimality criterion applied to what op.solve() returns:

* every accepted convex piecewise-linear expression equals, component by component and for every assignment of the variables, the
  pointwise maximum of the affine forms `pieces (flat L false e k)` (all trees, all lengths, all values);
* hence `e ≤ 0` is a finite system of linear inequalities in the original variables and `minimize e` is `minimize t` over
  `p(x) ≤ t`: the linear program emitted by `Drivers/C12.lean` has the same feasible points and the same objective values;
* Lagrangian sufficiency: nonnegative multipliers whose dual function value reaches the objective value of a feasible point
  prove that point optimal (so the multipliers returned by op.solve() can be judged without trusting the solver).

The harness `tools/corr/c12.py` builds the real `op`, solves it, and compares with the emitted program.
-/
namespace CvxVerif.PWL
open CvxVerif.Expr

/-- a max/plus term is below `u` exactly when all of its affine pieces are -/
theorem C12_pieces_iff (ρ : Env) (s : S) (hw : s.wf) (u : Rat) : s.eval ρ ≤ u ↔ ∀ p ∈ pieces s, p.eval ρ ≤ u := by
  constructor
  · intro h p hp; exact le_trans (pieces_le ρ s hw p hp) h
  · intro h; obtain ⟨p, hp, e⟩ := pieces_attain ρ s; rw [← e]; exact h p hp

/-- the term is the maximum of its pieces: an upper bound that is attained -/
theorem C12_pieces_max (ρ : Env) (s : S) (hw : s.wf) :
    (∀ p ∈ pieces s, p.eval ρ ≤ s.eval ρ) ∧ ∃ p ∈ pieces s, p.eval ρ = s.eval ρ :=
  ⟨pieces_le ρ s hw, pieces_attain ρ s⟩

/-- Flattening is exact: for every accepted expression that is not concave, component `k` of the formula equals the flattened term,
for all values of the variables; for one that is not convex, the flattened term of `-e` equals minus the formula. -/
theorem C12_flat_exact (L : Lens) (ρ : Env) (e : Expr) (c : Curv) (h : curv L e = some c) (k : Nat) :
    (c ≠ .concave → (flat L false e k).eval ρ = evalAt L ρ e k) ∧ (c ≠ .convex → (flat L true e k).eval ρ = - evalAt L ρ e k) := by
  constructor
  · intro hc; simpa [sgn] using flat_correct L ρ e c h false (by simpa [ok] using hc) k
  · intro hc; simpa [sgn] using flat_correct L ρ e c h true (by simpa [ok] using hc) k

/-- An inequality constraint `e ≤ 0` (e accepted as convex, affine or constant), component `k`, is exactly the linear system emitted for it. -/
theorem C12_constraint_is_linear_system (L : Lens) (ρ : Env) (e : Expr) (c : Curv) (h : curv L e = some c) (hc : c ≠ .concave) (k : Nat) (u : Rat) :
    evalAt L ρ e k ≤ u ↔ ∀ p ∈ pieces (flat L false e k), p.eval ρ ≤ u := by
  rw [← (C12_flat_exact L ρ e c h k).1 hc]
  exact C12_pieces_iff ρ _ (flat_wf L e false k) u

/-- `-e ≤ u` for an expression that is not convex (used for `e ≥ …` constraints and for both halves of an equality) -/
theorem C12_neg_constraint_is_linear_system (L : Lens) (ρ : Env) (e : Expr) (c : Curv) (h : curv L e = some c) (hc : c ≠ .convex) (k : Nat) (u : Rat) :
    - evalAt L ρ e k ≤ u ↔ ∀ p ∈ pieces (flat L true e k), p.eval ρ ≤ u := by
  rw [← (C12_flat_exact L ρ e c h k).2 hc]
  exact C12_pieces_iff ρ _ (flat_wf L e true k) u

/-- When the flattened term has a single piece (always the case for affine expressions built without max/min/abs), that affine
form *is* the expression: this is how equality constraints are emitted. -/
theorem C12_single_piece_is_expression (L : Lens) (ρ : Env) (e : Expr) (c : Curv) (h : curv L e = some c) (hc : c ≠ .concave) (k : Nat) (p : Lin)
    (hp : pieces (flat L false e k) = [p]) : p.eval ρ = evalAt L ρ e k := by
  obtain ⟨q, hq, e1⟩ := pieces_attain ρ (flat L false e k)
  rw [hp, List.mem_singleton] at hq; subst hq
  rw [e1]; exact (C12_flat_exact L ρ e c h k).1 hc

/-- The emitted program `minimize t s.t. p(x) ≤ t (p ∈ pieces obj), q(x) ≤ 0 (q ∈ pieces of each constraint component)` and the problem
that was written down have the same feasible `x`, and `t` ranges exactly over the upper bounds of the objective: same optimal value, same minimisers. -/
theorem C12_emitted_program_equivalent (L : Lens) (ρ : Env) (obj : Expr) (co : Curv) (ho : curv L obj = some co) (hco : co ≠ .concave)
    (cons : List (Expr × Nat)) (hcons : ∀ ek ∈ cons, ∃ c, curv L ek.1 = some c ∧ c ≠ .concave) (t : Rat) :
    ((∀ ek ∈ cons, evalAt L ρ ek.1 ek.2 ≤ 0) ∧ evalAt L ρ obj 0 ≤ t) ↔
    ((∀ ek ∈ cons, ∀ p ∈ pieces (flat L false ek.1 ek.2), p.eval ρ ≤ 0) ∧ ∀ p ∈ pieces (flat L false obj 0), p.eval ρ ≤ t) := by
  rw [C12_constraint_is_linear_system L ρ obj co ho hco 0 t]
  constructor
  · rintro ⟨h1, h2⟩
    refine ⟨fun ek hek => ?_, h2⟩
    obtain ⟨c, hc, hcc⟩ := hcons ek hek
    exact (C12_constraint_is_linear_system L ρ ek.1 c hc hcc ek.2 0).mp (h1 ek hek)
  · rintro ⟨h1, h2⟩
    refine ⟨fun ek hek => ?_, h2⟩
    obtain ⟨c, hc, hcc⟩ := hcons ek hek
    exact (C12_constraint_is_linear_system L ρ ek.1 c hc hcc ek.2 0).mpr (h1 ek hek)

/-- weighted sum `Σ l_i · g_i` -/
def wsum : List Rat → List Rat → Rat
  | l :: ls, g :: gs => l * g + wsum ls gs
  | _, _ => 0

theorem wsum_nonpos : ∀ (ls gs : List Rat), (∀ l ∈ ls, 0 ≤ l) → (∀ g ∈ gs, g ≤ 0) → wsum ls gs ≤ 0
  | [], _, _, _ => by simp [wsum]
  | _ :: _, [], _, _ => by simp [wsum]
  | l :: ls, g :: gs, hl, hg => by
    simp only [wsum]
    have h1 : l * g ≤ 0 := mul_nonpos_of_nonneg_of_nonpos (hl l (List.mem_cons_self ..)) (hg g (List.mem_cons_self ..))
    have h2 := wsum_nonpos ls gs (fun x hx => hl x (List.mem_cons_of_mem _ hx)) (fun x hx => hg x (List.mem_cons_of_mem _ hx))
    linarith

theorem wsum_zero : ∀ (ns hs : List Rat), (∀ h ∈ hs, h = 0) → wsum ns hs = 0
  | [], _, _ => by simp [wsum]
  | _ :: _, [], _ => by simp [wsum]
  | n :: ns, h :: hs, hh => by
    simp only [wsum]
    rw [hh h (List.mem_cons_self ..), wsum_zero ns hs (fun x hx => hh x (List.mem_cons_of_mem _ hx))]; ring

/-- Lagrangian sufficiency (no convexity needed): if `xs` is feasible, the inequality multipliers are nonnegative and the Lagrangian
is nowhere below `f xs` (the dual function value reaches the primal value: zero duality gap), then `xs` is optimal. -/
theorem C12_multipliers_certify_optimality {X : Type} (f : X → Rat) (g h : X → List Rat) (ls ns : List Rat) (xs : X)
    (hl : ∀ l ∈ ls, 0 ≤ l)
    (hdual : ∀ x, f xs ≤ f x + wsum ls (g x) + wsum ns (h x)) :
    ∀ x, (∀ v ∈ g x, v ≤ 0) → (∀ v ∈ h x, v = 0) → f xs ≤ f x := by
  intro x hg hh
  have h1 := wsum_nonpos ls (g x) hl hg
  have h2 := wsum_zero ns (h x) hh
  have := hdual x
  linarith

/-- and conversely (weak duality): no choice of nonnegative multipliers gives a dual function value above the value of a feasible point -/
theorem C12_weak_duality {X : Type} (f : X → Rat) (g h : X → List Rat) (ls ns : List Rat) (d : Rat)
    (hl : ∀ l ∈ ls, 0 ≤ l) (hdual : ∀ x, d ≤ f x + wsum ls (g x) + wsum ns (h x)) :
    ∀ x, (∀ v ∈ g x, v ≤ 0) → (∀ v ∈ h x, v = 0) → d ≤ f x := by
  intro x hg hh
  have h1 := wsum_nonpos ls (g x) hl hg
  have h2 := wsum_zero ns (h x) hh
  have := hdual x
  linarith

/-! Non-vacuity: `max(abs(x), y) + sum(x)` over `x` of length 2 and `y` of length 1, component 1. -/
example : (pieces (flat exL false (.add (.max2 (.abs (.var 0)) (.var 1)) (.sum (.var 0))) 1)).length = 3 := by decide

end CvxVerif.PWL
