import CvxVerif.Gen.Dispatch
import CvxVerif.Model.Proto
open CvxVerif CvxVerif.Py CvxVerif.Gen.Dispatch CvxVerif.Proto

def stepLine (u : Unit) (line : String) : Unit × String :=
  match words line with
  | ["dispatch", ep, qs, v] =>
    let k : Val := if v == "none" then Val.none else if v.startsWith "s" then Val.str (v.drop 1).toString else Val.other
    match dispatchers.find? (·.1 == ep) with
    | none => (u, "no-dispatcher")
    | some d =>
      match d.2 k (qs == "1") with
      | .error e => (u, "error " ++ e)
      | .ok (n, a) =>
        match factories.find? (·.1 == n) with
        | some f => if a ≤ f.2 then (u, s!"ok {n} {a}") else (u, s!"ok-badarity {n} {a}")
        | none => (u, s!"ok {n} {a}")
  | _ => (u, "bad-op")

def main : IO Unit := loop stepLine ()
