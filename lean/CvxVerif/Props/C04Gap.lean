import CvxVerif.Gen.DecideNL
import Mathlib.Tactic.Linarith

/-!
C04 — the relative gap that the stopping test of `cpl` reads (and that `cp` / `gp` report) is the documented one:
`gap / (-c'x)` when the primal objective is negative, `gap / L(x,y,z)` when the dual objective is positive, undefined otherwise.
The if / elif / else chain that assigns `relgap` in the statistics block of `cpl` is regenerated from cvxprog.py on every run
(`Gen/DecideNL.lean`, `cpl.relgapDef`); a clamp or another normaliser in either branch breaks the theorem.
-/
namespace CvxVerif.C04Gap
open CvxVerif.Gen.DecideNL

variable {K : Type} [Field K] [LinearOrder K] [IsStrictOrderedRing K]

theorem C04_relgap_documented (dcost gap pcost : K) :
    cpl.relgapDef dcost gap pcost =
      if pcost < 0 then some (gap / -pcost) else if dcost > 0 then some (gap / dcost) else none := by
  unfold cpl.relgapDef
  by_cases h1 : pcost < 0 <;> by_cases h2 : dcost > 0 <;> simp [h1, h2]

/-- the arguments of the generated definition are the three scalars of the documentation, in this order -/
theorem C04_relgap_params : cpl.relgapParams = ["dcost", "gap", "pcost"] := by decide

/-- consequence used with the stopping test: an accepted relative criterion `relgap ≤ reltol` bounds the gap by `reltol` times the magnitude of the
objective that defines it -/
theorem C04_relgap_bounds_gap (dcost gap pcost reltol rg : K) (h : cpl.relgapDef dcost gap pcost = some rg) (hr : rg ≤ reltol) :
    (pcost < 0 ∧ gap ≤ reltol * (-pcost)) ∨ (0 < dcost ∧ gap ≤ reltol * dcost) := by
  rw [C04_relgap_documented] at h
  by_cases h1 : pcost < 0
  · left
    simp only [h1, if_true, Option.some.injEq] at h
    refine ⟨h1, ?_⟩
    have hp : 0 < -pcost := neg_pos.mpr h1
    rw [← h, div_le_iff₀ hp] at hr; exact hr
  · by_cases h2 : dcost > 0
    · right
      simp only [h1, if_false, h2, if_true, Option.some.injEq] at h
      refine ⟨h2, ?_⟩
      rw [← h, div_le_iff₀ h2] at hr; exact hr
    · simp [h1, h2] at h

example : cpl.relgapDef (2 : ℚ) 1 (-4) = some (1 / 4) := by norm_num [cpl.relgapDef]

end CvxVerif.C04Gap
