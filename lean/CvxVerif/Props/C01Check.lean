import CvxVerif.Proofs.CertCheck
/-!
# C01 (part 2) — the rational certificate checker is sound

`Model/CertCheck.lean` is what judges the vectors returned by the real solvers.  Its residual part computes the
documented quantities by definition; the parts with mathematical content are the cone-membership tests and the
comparison of norms through squares.
-/
namespace CvxVerif.C01
open CvxVerif.Cert

/-- an accepted 's' block is positive semidefinite (lower-triangle symmetrisation), for blocks of every order -/
theorem C01_check_sound_psd (k : ℕ) (blk : List Rat) (h : inS1 k blk = true) (u : ℕ → Rat) :
    0 ≤ quadForm k blk u := inS1_sound k blk h u

/-- an accepted 'q' block lies in the second-order cone -/
theorem C01_check_sound_soc (s0 : Rat) (t : List Rat) (h : inQ (s0 :: t) = true) :
    0 ≤ s0 ∧ (t.map fun a => a * a).sum ≤ s0 * s0 := inQ_sound s0 t h

/-- comparing squared norms is comparing norms -/
theorem C01_check_sound_norm (r tol v : Rat) (hr : 0 ≤ r) (ht : 0 ≤ tol) (hv : 0 ≤ v)
    (h : relLe (r * r) tol (v * v) = true) : r ≤ tol * max 1 v := relLe_sound r tol v hr ht hv h

/-- non-vacuity: a concrete positive definite block and a concrete indefinite one -/
example : inS1 2 [2, 1, 99, 2] = true := by decide +kernel
example : inS1 2 [1, 2, 99, 1] = false := by decide +kernel

end CvxVerif.C01
