import CvxVerif.Model.Mps
import CvxVerif.Model.Proto
open CvxVerif CvxVerif.Mps CvxVerif.Proto

/-- labels are percent-encoded by the harness (`%20` space, `%25` percent, `%e` the empty label); they are opaque here except for
the suffixes `_lb` / `_ub` that `fromfile` appends, which contain no escaped characters -/
structure St where
  file : File := ⟨[], [], [], [], []⟩
  wcols : List String := []
  wrows : List (String × RTy × Rat × List Rat) := []
  wobj : List Rat := []

def lab (s : String) : String := if s = "%e" then "" else s
def unlab (s : String) : String := if s = "" then "%e" else s

def showCoef (c : List (String × Rat)) : String :=
  if c.isEmpty then "-" else ",".intercalate (c.map fun e => s!"{unlab e.1}={showRat e.2}")
def showCon (c : Con) : String := s!"{unlab c.name}:{showCoef c.coef}:{showRat c.const}"
def showCons (l : List Con) : String := if l.isEmpty then "-" else "|".intercalate (l.map showCon)

def showErr : Err → String
  | .rowType _ => "ValueError:rowtype" | .noRow _ => "KeyError:norow" | .noCol _ => "ValueError:nocol"
  | .repeated _ => "ValueError:repeated" | .boundType _ => "ValueError:boundtype" | .infeasible _ => "ValueError:infeasible"

def ratList? (s : String) : Option (List Rat) := if s = "-" then some [] else (s.splitOn ",").mapM parseRat

def stepLine (s : St) (line : String) : St × String :=
  match words line with
  | ["reset"] => ({}, "ok")
  | ["row", t, l] => ({ s with file := { s.file with rows := s.file.rows ++ [(lab t, lab l)] } }, "ok")
  | ["col", c, r, v] => match parseRat v with
    | some q => ({ s with file := { s.file with cols := s.file.cols ++ [(lab c, lab r, q)] } }, "ok")
    | none => (s, "bad-op")
  | ["rhs", vec, r, v] => match parseRat v with
    | some q => ({ s with file := { s.file with rhs := s.file.rhs ++ [(lab vec, lab r, q)] } }, "ok")
    | none => (s, "bad-op")
  | ["range", vec, r, v] => match parseRat v with
    | some q => ({ s with file := { s.file with ranges := s.file.ranges ++ [(lab vec, lab r, q)] } }, "ok")
    | none => (s, "bad-op")
  | ["bound", t, vec, c, v] => match parseRat v with
    | some q => ({ s with file := { s.file with bounds := s.file.bounds ++ [(lab t, lab vec, lab c, q)] } }, "ok")
    | none => (s, "bad-op")
  | ["read"] =>
    match read s.file with
    | .error e => (s, "error " ++ showErr e)
    | .ok lp => (s, s!"lp cols={if lp.cols.isEmpty then "-" else ",".intercalate (lp.cols.map unlab)} obj={showCoef lp.obj} objc={showRat lp.objconst} ineq={showCons lp.ineqs} eq={showCons lp.eqs}")
  | ["wcol", c] => ({ s with wcols := s.wcols ++ [lab c] }, "ok")
  | ["wobj", cs] => match ratList? cs with
    | some l => ({ s with wobj := l }, "ok")
    | none => (s, "bad-op")
  | ["wrow", t, l, rhs, cs] => match parseRTy t, parseRat rhs, ratList? cs with
    | some ty, some q, some l' => ({ s with wrows := s.wrows ++ [(lab l, ty, q, l')] }, "ok")
    | _, _, _ => (s, "bad-op")
  | ["write"] =>
    let idx (c : String) : Nat := s.wcols.idxOf c
    let p : Flat := { cols := s.wcols, rows := s.wrows.map fun r => (r.1, r.2.1, r.2.2.1),
                      A := fun r c => (((s.wrows.find? fun x => x.1 = r).map fun x => x.2.2.2.getD (idx c) 0)).getD 0,
                      c := fun c => s.wobj.getD (idx c) 0 }
    let f := write p
    (s, "file rows=" ++ ",".intercalate (f.rows.map fun r => s!"{r.1}:{unlab r.2}")
        ++ " cols=" ++ (if f.cols.isEmpty then "-" else ",".intercalate (f.cols.map fun e => s!"{unlab e.1}:{unlab e.2.1}:{showRat e.2.2}"))
        ++ " rhs=" ++ (if f.rhs.isEmpty then "-" else ",".intercalate (f.rhs.map fun e => s!"{unlab e.2.1}:{showRat e.2.2}"))
        ++ " bounds=" ++ (if f.bounds.isEmpty then "-" else ",".intercalate (f.bounds.map fun e => s!"{e.1}:{unlab e.2.2.1}")))
  | _ => (s, "bad-op")

def main : IO Unit := loop stepLine {}
