"""C02: the two certificate branches of conelp (generated, Gen/Decide.lean) + Farkas lemma in Lean; planted infeasible /
unbounded problems through conelp, lp, socp, sdp and op.solve, every infeasibility status judged by the Lean checker."""
import os, sys, io, contextlib, random
import vlib
sys.path.insert(0, os.path.join(vlib.VERIF, 'tools', 'translate'))
from corr import certlib

LEAN_TARGETS = ['CvxVerif.Props.C02']
MODEL_FILES = ['CvxVerif.Model.LinAlgMachine', 'CvxVerif.Model.CertCheck', 'CvxVerif.Proofs.CertCheck', 'CvxVerif.Gen.Decide']
LEVEL = 'proof'
TRUSTED = ['translator py2lean.gen_decide and Model/LinAlgMachine.lean', 'rational checker Model/CertCheck.lean (pinfOk / dinfOk)']
ASSUMPTIONS = ["the self-duality <s,z> >= 0 of the product cone is a hypothesis (`hpair`) of C02_farkas_primal",
               'rounding allowance feastol*(1+1e-6)+1e-13; |h.z+b.y+1| and |c.x+1| <= 1e-9']

def translate(ctx):
    import py2lean
    try: py2lean.gen_decide()
    except Exception as e: return ['py2lean.gen_decide: %s: %s' % (type(e).__name__, e)]
    return []

def correspond(ctx):
    cvxopt = vlib.use_build(ctx.build)
    n = 25 if ctx.quick() else 500
    stats, tags, judged, lines = certlib.cone_runs(ctx, cvxopt, ['pinf', 'dinf', 'pinf', 'dinf', 'optimal'], n, 4 if ctx.quick() else 6, 'c02')
    ev = stats['solves']
    ev += opsolve_runs(ctx, cvxopt)
    ev += precision_runs(ctx, cvxopt)
    ev += start_outside_cone_runs(ctx, cvxopt)
    ctx.cov.update({'evaluations': ev, 'distinct_nontrivial': judged,
                    'rule': 'planted cone LPs: 40% strict Farkas certificates (dual feasible), 40% strictly improving rays (primal feasible), 20% '
                            'solvable; presentations as in C01; every infeasibility status judged by pinfOk/dinfOk of the Lean checker; '
                            'op.solve status propagation on infeasible/unbounded LPs, fresh and as histories of solves on the same variable and constraint objects', 'statuses': stats, 'presentations': tags})
    ctx.samples += lines[:2]

def start_outside_cone_runs(ctx, cvxopt):
    """strictly feasible problems whose inequalities come in opposite pairs (G'e = 0) with a user start point outside the cone: z = -e
    satisfies G'z + A'y = 0 and h'z + b'y < 0, i.e. it looks like a Farkas certificate except that it is not in the cone.  The documented answer
    is ValueError; an infeasibility status on such a problem can carry no valid certificate."""
    import random
    from corr import problems as PR
    from cvxopt import solvers, matrix
    rng = random.Random(ctx.seed * 7001 + 2)
    runs = 0; stat = {}
    for it in range(16 if ctx.quick() else 300):
        pr = PR.planted_twosided(rng); dims = pr.dims
        c, G, h, A, b, P = PR.to_cvx(cvxopt, pr)
        e = [1.0] * dims['l']
        for m in dims['q']: e += [1.0] + [0.0] * (m - 1)
        for k in dims['s']: e += [(1.0 if i == j else 0.0) for j in range(k) for i in range(k)]
        t = rng.choice([1.0, 0.5, 3.0]); which = rng.choice(['z', 'z', 's'])
        w = pr.wit
        ps = {'x': matrix(w['x'], (pr.n, 1), 'd'), 's': matrix(w['s'] if which == 'z' else [-t * a for a in e], (pr.N, 1), 'd')}
        ds = {'y': matrix(0.0, (0, 1)), 'z': matrix([-t * a for a in e] if which == 'z' else w['z'], (pr.N, 1), 'd')}
        calls = [('conelp', lambda: solvers.conelp(c, G, h, dims, A, b, primalstart=ps, dualstart=ds, options={'show_progress': False}))]
        if which == 'z': calls.append(('conelp dualstart only', lambda: solvers.conelp(c, G, h, dims, A, b, dualstart=ds, options={'show_progress': False})))
        if not dims['q'] and not dims['s']: calls.append(('lp', lambda: solvers.lp(c, G, h, A, b, primalstart=ps, dualstart=ds, options={'show_progress': False})))
        for tag, fn in calls:
            runs += 1
            try: r = certlib.quiet(fn)
            except ValueError: stat['refused'] = stat.get('refused', 0) + 1; continue
            except Exception as ex:
                stat['exception'] = stat.get('exception', 0) + 1
                if not isinstance(ex, (ArithmeticError, ZeroDivisionError, OverflowError)):
                    ctx.violation('c02:start-point-exception:' + type(ex).__name__, '%s with a start point outside the cone raised %s: %s' % (tag, type(ex).__name__, ex), {'dims': dims, 'which': which})
                continue
            stat[r['status']] = stat.get(r['status'], 0) + 1
            if r['status'] in ('primal infeasible', 'dual infeasible'):
                ctx.violation('c02:infeasibility-status-on-feasible-problem:start-point', "%s returned %r for a strictly feasible and bounded problem when the %s start point was %s (outside the cone; "
                              "for z = -e: G'z + A'y = 0 and h'z < 0, a certificate in everything but cone membership)" % (tag, r['status'], 'dual' if which == 'z' else 'primal', '-%g e' % t),
                              {'dims': dims, 'c': pr.c, 'G': pr.G, 'h': pr.h, 'which': which, 'scale': t, 'presentation': tag})
    ctx.cov['start_outside_cone_runs'] = dict(stat, runs=runs)
    return runs

def precision_runs(ctx, cvxopt):
    """strictly feasible planted cone LPs solved with tolerances near and below what double precision delivers (1e-11 .. 1e-13): the iteration
    may break down, but an infeasibility status still has to come with a certificate (finite vectors, c'x = -1 resp. h'z + b'y = -1, cone
    membership, residual at most feastol).  The corpus instance (tools/corr/c02_corpus.json) runs first."""
    import json, math
    from corr import problems as PR
    from cvxopt import solvers, matrix, blas, misc
    rng = random.Random(ctx.seed * 4177 + 2)
    insts = []
    for d in json.load(open(os.path.join(vlib.VERIF, 'tools', 'corr', 'c02_corpus.json')))['instances']:
        n, N, p = d['n'], d['N'], d['p']
        insts.append((d['dims'], matrix(d['c']), matrix([a for col in d['G'] for a in col], (N, n)), matrix(d['h']),
                      matrix([a for col in d['A'] for a in col], (p, n)) if p else matrix(0.0, (0, n)), matrix(d['b']) if p else matrix(0.0, (0, 1)), 'corpus'))
    for i in range(20 if ctx.quick() else 400):
        pr = PR.planted_conelp(rng, 'optimal')
        c, G, h, A, b, _ = PR.to_cvx(cvxopt, pr)
        insts.append((pr.dims, c, G, h, A, b, 'planted'))
    runs = 0; stat = {}
    for dims, c, G, h, A, b, src in insts:
        for tol in ((1e-11, 1e-12, 1e-13) if src == 'corpus' else (rng.choice([1e-11, 1e-12, 1e-13]),)):
            o = {'show_progress': False, 'feastol': tol, 'abstol': tol, 'reltol': tol}
            runs += 1
            try:
                with contextlib.redirect_stdout(io.StringIO()): r = solvers.conelp(c, G, h, dims, A, b, options=o)
            except Exception as e:
                stat['exception'] = stat.get('exception', 0) + 1; continue          # escaping breakdowns are C10's listed finding
            st = r['status']; stat[st] = stat.get(st, 0) + 1
            if st not in ('primal infeasible', 'dual infeasible'): continue
            vecs = [r['x'], r['s']] if st == 'dual infeasible' else [r['y'], r['z']]
            finite = all(v is not None and all(math.isfinite(t) for t in v) for v in vecs)
            what = None
            if not finite: what = 'the certificate contains NaN / infinite entries'
            else:
                if st == 'dual infeasible':
                    res = max(blas.nrm2(A * r['x']) / max(1.0, blas.nrm2(b)) if A.size[0] else 0.0, math.sqrt(abs(misc.snrm2(G * r['x'] + r['s'], dims)) ** 2) / max(1.0, misc.snrm2(h, dims)))
                    if abs(blas.dot(c, r['x']) + 1.0) > 1e-9 or res > tol * (1 + 1e-6) + 1e-13: what = "c'x = %r, residual %r > feastol" % (blas.dot(c, r['x']), res)
                else:
                    gz = G.T * r['z'] + (A.T * r['y'] if A.size[0] else 0 * c)
                    res = blas.nrm2(gz) / max(1.0, blas.nrm2(c))
                    val = blas.dot(h, r['z']) + (blas.dot(b, r['y']) if A.size[0] else 0.0)
                    if abs(val + 1.0) > 1e-9 or res > tol * (1 + 1e-6) + 1e-13: what = "h'z + b'y = %r, residual %r > feastol" % (val, res)
            if what:
                ctx.violation('c02:certificate-invalid:conelp:precision-limit', "conelp with tolerances %g on a strictly feasible cone LP returned %r but %s" % (tol, st, what),
                              {'dims': dims, 'c': list(c), 'G': list(G), 'h': list(h), 'A': list(A), 'b': list(b), 'tolerance': tol, 'source': src})
    ctx.cov['precision_runs'] = dict(stat, runs=runs)
    return runs

def opsolve_runs(ctx, cvxopt):
    """status propagation into modeling.op.solve: values / multipliers are None for infeasible and unbounded problems"""
    import cvxopt.modeling as M
    from cvxopt import matrix
    n = 0
    for kind in ('infeasible', 'unbounded'):
        x = M.variable(2, 'x')
        if kind == 'infeasible': cs = [x[0] + x[1] <= -1, x >= 0]
        else: cs = [x[0] - x[1] <= 1, x[0] >= 0]
        p = M.op(x[0] - 2 * x[1] if kind == 'unbounded' else x[0], cs)
        with contextlib.redirect_stdout(io.StringIO()):
            p.solve()
        n += 1
        want = 'primal infeasible' if kind == 'infeasible' else 'dual infeasible'
        if p.status != want:
            ctx.violation('c02:op.solve-status:' + kind, 'op.solve on an %s LP gives status %r' % (kind, p.status), {'kind': kind})
        # documented (modeling.rst): infeasible -> variable values None, multipliers = certificate;
        #                            unbounded  -> multipliers None, variable values = certificate
        if kind == 'infeasible' and (x.value is not None or any(c.multiplier.value is None for c in cs)):
            ctx.violation('c02:op.solve-values:' + kind, 'op.solve on an infeasible LP: variable values must be None and multipliers a certificate', {'kind': kind})
        if kind == 'unbounded' and (x.value is None or any(c.multiplier.value is not None for c in cs)):
            ctx.violation('c02:op.solve-values:' + kind, 'op.solve on an unbounded LP: multipliers must be None and variable values a certificate', {'kind': kind})
    # histories on the SAME variable and constraint objects: what an earlier solve left in .value must not survive a later infeasible / unbounded solve
    rng = random.Random(ctx.seed * 389 + 2)
    x = M.variable(2, 'x')
    c_pos, c_up, c_bad, c_ray = (x >= 0), (x[0] + x[1] <= 1), (x[0] + x[1] <= -1), (x[0] - x[1] <= 1)
    probs = {'optimal': (lambda: M.op(-x[0] - x[1], [c_up, c_pos]), [c_up, c_pos]),
             'primal infeasible': (lambda: M.op(x[0], [c_bad, c_pos]), [c_bad, c_pos]),
             'dual infeasible': (lambda: M.op(x[0] - 2 * x[1], [c_ray, c_pos]), [c_ray, c_pos])}
    hist = []
    for step in range(6 if ctx.quick() else 40):
        want = rng.choice(sorted(probs)) if step >= 3 else ['optimal', 'primal infeasible', 'dual infeasible'][step]
        mk, cs = probs[want]
        p = mk()
        with contextlib.redirect_stdout(io.StringIO()):
            p.solve()
        n += 1; hist.append(want)
        case = {'history': list(hist)}
        if p.status != want:
            ctx.violation('c02:op.solve-status:history', 'op.solve gives status %r for the %s problem after the history %r' % (p.status, want, hist[:-1]), case); continue
        has_x = x.value is not None; has_m = [c.multiplier.value is not None for c in cs]
        if want == 'optimal' and not (has_x and all(has_m)):
            ctx.violation('c02:op.solve-values:history:optimal', 'optimal solve after %r: values / multipliers missing' % hist[:-1], case)
        if want == 'primal infeasible' and (has_x or not all(has_m)):
            ctx.violation('c02:op.solve-values:history:infeasible', "status 'primal infeasible' after the history %r, but the variable still has a value (%s) / a multiplier is missing"
                          % (hist[:-1], None if x.value is None else list(x.value)), case)
        if want == 'dual infeasible' and (not has_x or any(has_m)):
            ctx.violation('c02:op.solve-values:history:unbounded', "status 'dual infeasible' after the history %r, but a constraint still has a multiplier / the ray is missing" % hist[:-1], case)
    return n

def search(ctx, why):
    """a proof obligation about the certificate returns no longer checks: look for an infeasible / unbounded instance with several 's' blocks
    whose returned certificate fails the Lean checker"""
    import cvxopt            # already imported from the S0 build by correspond()
    n = 150 if ctx.quick() else 1500
    stats, tags, judged, lines = certlib.cone_runs(ctx, cvxopt, ['pinf', 'dinf'], n, 3, 'c02', focus='s-blocks')
    ctx.cov['search'] = {'instances': n, 'judged': judged, 'statuses': stats}
def replay(ctx, payload): correspond(ctx)
