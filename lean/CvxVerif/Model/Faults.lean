/-!
Model of how the native solvers (conelp, coneqp, cpl) contain an `ArithmeticError` raised by the KKT
factorisation or a KKT solve.  The table of call sites (`Gen/Faults.lean`) is generated from the source; the
semantics of a site (which outcome a failure at that site has in a given solver state) is fixed here.
Core Lean only.
-/
namespace CvxVerif.Faults

structure Site where
  solver  : String
  line    : Nat
  callee  : String
  kind    : String                   -- "factor" | "solve"
  inLoop  : Bool                     -- inside `for iters in range(MAXITERS+1)`
  guarded : Bool                     -- inside `try: ... except ArithmeticError`
  reach   : List (String × Bool)     -- solver states in which the site can be reached (non-trivial for the retry inside a handler)
  leaves  : List (List (String × Bool) × String)   -- control paths of the handler: (guard atoms, outcome)
deriving Repr

structure RaiseSite where
  func : String
  line : Nat
  cls : String
  unbound : List String              -- names used in the raise statement that are not bound at that point
deriving Repr

/-- the solver state a handler looks at -/
structure Ctx where
  iters0 : Bool        -- `iters == 0`
  started : Bool       -- `primalstart and dualstart` (conelp)
  relaxedMid : Bool    -- `0 < relaxed_iters < MAX_RELAXED_ITERS` (cpl)
  retryOk : Bool       -- the re-factorisation after restoring the saved state succeeds (cpl)
deriving Repr, DecidableEq

def evalAtom (c : Ctx) (a : String) : Option Bool :=
  if a == "iters == 0" then some c.iters0
  else if a == "iters == 0 and primalstart and dualstart" then some (c.iters0 && c.started)
  else if a == "0 < relaxed_iters < MAX_RELAXED_ITERS > 0" then some c.relaxedMid
  else if a == "retry-ok" then some c.retryOk
  else none

/-- `some true` iff all atoms hold with their polarity; `none` if an atom is not understood -/
def evalGuard (c : Ctx) : List (String × Bool) → Option Bool
  | [] => some true
  | (a, pol) :: rest =>
    match evalAtom c a, evalGuard c rest with
    | some v, some r => some ((v == pol) && r)
    | _, _ => none

inductive Outcome where
  | valueError       -- the documented `ValueError("Rank(A) < p or ...")`
  | unknown          -- result dictionary with status 'unknown'
  | recovered        -- saved state restored, factorisation repeated, the solve continues
  | retry            -- `continue`
  | escape           -- the `ArithmeticError` leaves the solver
  | bad (what : String)   -- anything else (another exception class, another status, guard not understood)
deriving Repr, DecidableEq

def outcomeOfString (s : String) : Outcome :=
  if s == "raise ValueError" then .valueError
  else if s == "return unknown" then .unknown
  else if s == "recovered" then .recovered
  else if s == "retry" then .retry
  else .bad s

def pick (c : Ctx) : List (List (String × Bool) × String) → Outcome
  | [] => .bad "no handler path applies"
  | (g, o) :: rest =>
    match evalGuard c g with
    | some true => outcomeOfString o
    | some false => pick c rest
    | none => .bad "guard not understood"

/-- what happens when the call at site `s` raises `ArithmeticError` in solver state `c` -/
def outcome (s : Site) (c : Ctx) : Outcome :=
  if s.guarded then pick c s.leaves else .escape

/-- the solver state `c` is one in which site `s` can be executed -/
def reachable (s : Site) (c : Ctx) : Bool := evalGuard c s.reach == some true

def allCtx : List Ctx :=
  [true, false].flatMap fun a => [true, false].flatMap fun b => [true, false].flatMap fun d =>
    [true, false].map fun e => ⟨a, b, d, e⟩

theorem mem_allCtx (c : Ctx) : c ∈ allCtx := by
  cases c with
  | mk a b d e => cases a <;> cases b <;> cases d <;> cases e <;> decide

/-- A run of a solver, as far as failures are concerned: the sequence of KKT calls it makes, each with the
solver state at that moment and whether the call fails. The run ends at the first failing call whose outcome
is not `recovered`. -/
def runOutcome (events : List (Site × Ctx × Bool)) : Option Outcome :=
  match events with
  | [] => none                       -- no failure ended the run
  | (s, c, fails) :: rest =>
    if fails && reachable s c then
      match outcome s c with
      | .recovered => runOutcome rest
      | o => some o
    else runOutcome rest

end CvxVerif.Faults
