import CvxVerif.Spec.ExprParse
import CvxVerif.Model.Proto
open CvxVerif CvxVerif.Expr CvxVerif.Proto

/-- `env v0;v1;v2` sets the variable values; `expr <tokens>` prints `len=<n> curv=<c> val=<v>` -/
def stepLine (ρ : List (List Rat)) (line : String) : List (List Rat) × String :=
  match words line with
  | ["env", vs] => match (vs.splitOn ";").mapM pv with
    | some l => (l, "ok")
    | none => (ρ, "bad-op")
  | "expr" :: toks =>
    match parseE toks with
    | some (e, []) =>
      let L : Lens := fun i => (ρ.getD i []).length
      let env : Env := fun i k => (ρ.getD i []).getD k 0
      let l := len L e
      let c := curv L e
      let v := eval L env e
      (ρ, s!"len={match l with | some n => toString n | none => "error"} curv={showCurv c} val={match v with | some x => sv x | none => "error"}")
    | _ => (ρ, "bad-op")
  | _ => (ρ, "bad-op")

def main : IO Unit := loop stepLine []
