import CvxVerif.Model.Dense
import CvxVerif.Model.Sparse
/-!
Model of how matrices cross boundaries (`dense.c`: `matrix_reduce/getstate`, `Matrix_NewFromPyBuffer`, buffer export;
`sparse.c`: `spmatrix_reduce/getstate`).  Core Lean only.
-/
namespace CvxVerif.Serial
open CvxVerif.Dense CvxVerif.Sparse

/-- `matrix.__reduce__`: (values in column-major order, size, typecode) -/
def denseState (A : Mat) : List Num × (Nat × Nat) × TC := (A.buf, (A.nrows, A.ncols), A.tc)
/-- the constructor call that unpickling performs: `matrix(values, size, tc)` -/
def denseOfState (s : List Num × (Nat × Nat) × TC) : Mat := ⟨s.2.1.1, s.2.1.2, s.2.2, s.1⟩

/-- `spmatrix.__reduce__`: (V, I, J, size) in storage order -/
def sparseState (A : SpMat) : List (Nat × Nat × Rat) × (Nat × Nat) :=
  (A.ents.map fun e => (e.row, e.col, e.val), (A.nrows, A.ncols))
def sparseOfState (s : List (Nat × Nat × Rat) × (Nat × Nat)) : Option SpMat := fromTriplets s.2.1 s.2.2 s.1

/-- import of a 1- or 2-dimensional buffer with arbitrary (possibly negative or zero) strides, in items:
`mem` is the exporter's memory seen from the buffer pointer; the result is column-major (`dense.c` l.247-318). -/
def importBuffer (m n : Nat) (s0 s1 : Int) (mem : Int → Num) (tc : TC) : Mat :=
  ⟨m, n, tc, (List.range n).flatMap fun (j : Nat) => (List.range m).map fun (i : Nat) => mem ((i : Int) * s0 + (j : Int) * s1)⟩

/-- buffer export bookkeeping (`matrix_buffer_getbuf` / `releasebuf`): a view shares the storage of its matrix -/
structure Exports where
  count : Nat          -- `ob_exports`
  live : List Nat      -- identifiers of the live views

inductive Ev where
  | export (id : Nat)
  | release (id : Nat)

def stepEv (s : Exports) : Ev → Exports
  | .export id => ⟨s.count + 1, id :: s.live⟩
  | .release id => if id ∈ s.live then ⟨s.count - 1, s.live.erase id⟩ else s

end CvxVerif.Serial
