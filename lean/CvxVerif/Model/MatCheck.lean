import CvxVerif.Model.Proto
/-!
Exact rational evaluation of small matrix expressions, used to judge what the LAPACK wrappers return (every double is a rational
number; complex matrices are sent in their real 2n x 2n embedding, which preserves products, (conjugate) transposes and - up to the
factor 2 - Frobenius norms).  Core Lean only.
-/
namespace CvxVerif.MatCheck

/-- row-major list of rows -/
structure M where
  rows : Nat
  cols : Nat
  a : List (List Rat)
deriving Repr

def M.get (A : M) (i j : Nat) : Rat := (A.a.getD i []).getD j 0
def ofFn (m n : Nat) (f : Nat → Nat → Rat) : M := ⟨m, n, (List.range m).map fun i => (List.range n).map fun j => f i j⟩
def mul (A B : M) : Option M :=
  if A.cols = B.rows then some (ofFn A.rows B.cols fun i j => ((List.range A.cols).map fun k => A.get i k * B.get k j).sum) else none
def sub (A B : M) : Option M :=
  if A.rows = B.rows ∧ A.cols = B.cols then some (ofFn A.rows A.cols fun i j => A.get i j - B.get i j) else none
def add (A B : M) : Option M :=
  if A.rows = B.rows ∧ A.cols = B.cols then some (ofFn A.rows A.cols fun i j => A.get i j + B.get i j) else none
def tr (A : M) : M := ofFn A.cols A.rows fun i j => A.get j i
def eye (n : Nat) : M := ofFn n n fun i j => if i = j then 1 else 0
/-- diagonal matrix of the entries of a column vector -/
def diag (v : M) : M := ofFn v.rows v.rows fun i j => if i = j then v.get i 0 else 0
def fro2 (A : M) : Rat := (A.a.map fun r => (r.map fun x => x * x).sum).sum
def lower (A : M) : M := ofFn A.rows A.cols fun i j => if j ≤ i then A.get i j else 0
def upper (A : M) : M := ofFn A.rows A.cols fun i j => if i ≤ j then A.get i j else 0
/-- symmetric matrix stored in the lower (resp. upper) triangle -/
def symL (A : M) : M := ofFn A.rows A.cols fun i j => if j ≤ i then A.get i j else A.get j i
def symU (A : M) : M := ofFn A.rows A.cols fun i j => if i ≤ j then A.get i j else A.get j i
def unitLower (A : M) : M := ofFn A.rows A.cols fun i j => if j < i then A.get i j else if i = j then 1 else 0
def unitUpper (A : M) : M := ofFn A.rows A.cols fun i j => if i < j then A.get i j else if i = j then 1 else 0
def sliceRows (A : M) (k : Nat) : M := ofFn k A.cols fun i j => A.get i j
def sliceCols (A : M) (k : Nat) : M := ofFn A.rows k fun i j => A.get i j

inductive Ex where
  | var (name : String)
  | mul (a b : Ex) | sub (a b : Ex) | add (a b : Ex)
  | tr (a : Ex) | eye (n : Nat) | diag (a : Ex)
  | lower (a : Ex) | upper (a : Ex) | symL (a : Ex) | symU (a : Ex) | unitLower (a : Ex) | unitUpper (a : Ex)
  | rows (k : Nat) (a : Ex) | cols (k : Nat) (a : Ex)
deriving Repr

def eval (env : List (String × M)) : Ex → Option M
  | .var n => env.lookup n
  | .mul a b => do MatCheck.mul (← eval env a) (← eval env b)
  | .sub a b => do MatCheck.sub (← eval env a) (← eval env b)
  | .add a b => do MatCheck.add (← eval env a) (← eval env b)
  | .tr a => do some (MatCheck.tr (← eval env a))
  | .eye n => some (MatCheck.eye n)
  | .diag a => do some (MatCheck.diag (← eval env a))
  | .lower a => do some (MatCheck.lower (← eval env a))
  | .upper a => do some (MatCheck.upper (← eval env a))
  | .symL a => do some (MatCheck.symL (← eval env a))
  | .symU a => do some (MatCheck.symU (← eval env a))
  | .unitLower a => do some (MatCheck.unitLower (← eval env a))
  | .unitUpper a => do some (MatCheck.unitUpper (← eval env a))
  | .rows k a => do some (MatCheck.sliceRows (← eval env a) k)
  | .cols k a => do some (MatCheck.sliceCols (← eval env a) k)

/-- `‖e‖_F ≤ tol · ‖f‖_F · ‖g‖_F` through squares (`tol ≥ 0`) -/
def smallRel (env : List (String × M)) (e f g : Ex) (tol : Rat) : Option Bool := do
  let E ← eval env e; let F ← eval env f; let G ← eval env g
  some (decide (fro2 E ≤ tol * tol * fro2 F * fro2 G))

end CvxVerif.MatCheck
