"""Small problem instances for every solver entry point (shared by the solver-level correspondence checks)."""
import random

def basic_calls(cvxopt):
    """entry point name -> function(**kw) that solves a small well-posed instance through that entry point"""
    from cvxopt import matrix, spmatrix, solvers, log, exp, div, mul, spdiag
    import cvxopt.modeling as M
    c = matrix([-4., -5.]); G = matrix([[2., 1., -1., 0.], [1., 2., 0., -1.]]); h = matrix([3., 3., 0., 0.])
    ARGS = {}
    ARGS['conelp'] = (solvers.conelp, [c, G, h], {})
    ARGS['lp'] = (solvers.lp, [c, G, h], {})
    P = matrix([[2., .5], [.5, 1.]]); q = matrix([1., 1.])
    Gq = matrix([[-1., 0.], [0., -1.]]); hq = matrix([0., 0.]); A = matrix([1., 1.], (1, 2)); b = matrix(1.)
    ARGS['coneqp'] = (solvers.coneqp, [P, q, Gq, hq, None, A, b], {})
    ARGS['qp'] = (solvers.qp, [P, q, Gq, hq, A, b], {})
    cs = matrix([-2., 1., 5.])
    Gs = [matrix([[12., 13., 12.], [6., -3., -12.], [-5., -5., 6.]]),
          matrix([[3., 3., -1., 1.], [-6., -6., -9., 19.], [10., -2., -2., -3.]])]
    hs = [matrix([-12., -3., -2.]), matrix([27., 0., 3., -42.])]
    ARGS['socp'] = (solvers.socp, [cs], {'Gq': Gs, 'hq': hs})
    cd = matrix([1., -1., 1.])
    Gd = [matrix([[-7., -11., -11., 3.], [7., -18., -18., 8.], [-2., -8., -8., 1.]])]
    Gd += [matrix([[-21., -11., 0., -11., 10., 8., 0., 8., 5.], [0., 10., 16., 10., -10., -10., 16., -10., 3.],
                   [-5., 2., -17., 2., -6., 8., -17., 8., 6.]])]
    hd = [matrix([[33., -9.], [-9., 26.]]), matrix([[14., 9., 40.], [9., 91., 10.], [40., 10., 15.]])]
    ARGS['sdp'] = (solvers.sdp, [cd], {'Gs': Gd, 'hs': hd})
    # cpl / cp: analytic-centering type problem  min -sum log(1-x_i^2)  s.t. small linear constraints
    def Fac(x=None, z=None):
        if x is None: return 0, matrix(0.0, (2, 1))
        if max(abs(x)) >= 1.0: return None
        u = 1 - x**2
        val = -sum(log(u))
        Df = div(2 * x, u).T
        if z is None: return val, Df
        H = spdiag(2 * z[0] * div(1 + x**2, u**2))
        return val, Df, H
    Gc = matrix([[1., 0.], [0., 1.]]); hc = matrix([0.5, 0.7])
    ARGS['cp'] = (solvers.cp, [Fac, Gc, hc], {})
    def Fcpl(x=None, z=None):
        if x is None: return 1, matrix(0.0, (2, 1))
        if max(abs(x)) >= 1.0: return None
        u = 1 - x**2
        f = matrix(-sum(log(u)) - 1.0)
        Df = div(2 * x, u).T
        if z is None: return f, Df
        H = spdiag(2 * z[0] * div(1 + x**2, u**2))
        return f, Df, H
    ccpl = matrix([1., 1.])
    ARGS['cpl'] = (solvers.cpl, [ccpl, Fcpl, Gc, hc], {})
    # gp: min x*y^-1 + ... small posynomial problem in log form
    import math
    Kgp = [2, 1]                                     # min x + y  s.t.  2/(x*y) <= 1
    Fgp = matrix([[1., 0., -1.], [0., 1., -1.]])   # 3 x 2
    ggp = matrix([0., 0., math.log(2.0)])
    ARGS['gp'] = (solvers.gp, [Kgp, Fgp, ggp], {})
    def opsolve(c_, G_, h_, **kw):
        x = M.variable(2, 'x')
        p = M.op(M.dot(c_, x), [G_ * x <= h_])
        p.solve(**kw)
        return {'status': p.status, 'x': x.value, 'primal objective': p.objective.value()[0]}
    ARGS['op.solve'] = (opsolve, [c, G, h], {})
    return ARGS
