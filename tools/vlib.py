"""Shared machinery of the /verif checks: S0 build, S2 Lean build + axiom audit, Lean driver pipe,
evidence/replay/known-finding bookkeeping.  See DESIGN.md section 2.2."""
import os, sys, json, time, subprocess, tempfile, shutil, hashlib, re, fcntl, atexit, random

VERIF = os.path.dirname(os.path.dirname(os.path.abspath(__file__)))
LEAN = os.path.join(VERIF, 'lean')
REPO = os.environ.get('VERIF_REPO', '/repo')
ALLOWED_AXIOMS = {'propext', 'Classical.choice', 'Quot.sound'}
FORBIDDEN = re.compile(r'\b(sorry|admit|native_decide|bv_decide|implemented_by|unsafe)\b|^axiom |maxHeartbeats 0')

_scratch = []
def _cleanup():
    for d in _scratch:
        shutil.rmtree(d, ignore_errors=True)
atexit.register(_cleanup)

def scratch_dir(prefix='cvxverif_'):
    d = tempfile.mkdtemp(prefix=prefix, dir=os.environ.get('VERIF_SCRATCH', '/tmp'))
    _scratch.append(d)
    return d

def build_repo(guard=False, opt='-O2'):
    """S0: rebuild /repo's working tree; returns the directory to put on sys.path."""
    sys.path.insert(0, os.path.join(VERIF, 'tools'))
    import buildrepo
    pre = os.environ.get('VERIF_PREBUILT_GUARD' if guard else 'VERIF_PREBUILT')
    if pre and opt == '-O2': return pre          # development aid (tools/covaudit.sh): an instrumented build made beforehand from the same tree
    d = scratch_dir()
    buildrepo.build(d, repo=REPO, guard=guard, opt=opt)
    return d

def use_build(d):
    """make `import cvxopt` resolve to the scratch build (must be called before the first import)"""
    assert 'cvxopt' not in sys.modules
    sys.path.insert(0, d)
    import cvxopt
    assert cvxopt.__file__.startswith(d), cvxopt.__file__
    return cvxopt

class _Lock:
    def __enter__(self):
        self.f = open(os.path.join(LEAN, '.buildlock'), 'w')
        fcntl.flock(self.f, fcntl.LOCK_EX)
    def __exit__(self, *a):
        fcntl.flock(self.f, fcntl.LOCK_UN); self.f.close()

def run(cmd, cwd=None, timeout=3000, input=None, env=None):
    r = subprocess.run(cmd, cwd=cwd, capture_output=True, text=True, timeout=timeout, input=input, env=env)
    return r.returncode, r.stdout, r.stderr

def lean_build(targets, timeout=3000):
    """S2: lake build of the given module names. Returns (ok, log)."""
    with _Lock():
        rc, out, err = run(['lake', 'build'] + list(targets), cwd=LEAN, timeout=timeout)
    log = out + err
    if rc != 0:
        # failing modules and error lines first: the tail of a parallel build is dominated by warnings of modules that did build
        lines = log.split('\n')
        head = [l for l in lines if l.startswith('✖') or l.startswith('error:') or l.startswith('- CvxVerif')]
        log = 'FAILED MODULES / ERRORS:\n' + '\n'.join(head[:200]) + '\n--- log tail ---\n' + log[-1500:]
    return rc == 0, log

def prop_files(prop):
    import glob
    return sorted(glob.glob(os.path.join(LEAN, 'CvxVerif', 'Props', prop + '*.lean'))) + \
           sorted(glob.glob(os.path.join(LEAN, 'CvxVerif', 'Gen', prop + '*.lean')))

def theorem_names(prop):
    """names of the property theorems: every `theorem Cxx_*` of Props/Cxx*.lean (with its namespace)"""
    names = []
    for f in prop_files(prop):
        ns = []
        for line in open(f).read().split('\n'):
            m = re.match(r'\s*namespace\s+(\S+)', line)
            if m: ns.append(m.group(1))
            m = re.match(r'\s*end\s+(\S+)', line)
            if m and ns and ns[-1] == m.group(1): ns.pop()
            m = re.match(r'\s*(?:private\s+)?theorem\s+(%s_[A-Za-z0-9_]+)' % prop, line)
            if m: names.append('.'.join(ns + [m.group(1)]))
    return names

def lean_audit(prop, extra_imports=()):
    """`#print axioms` of every property theorem; returns (ok, {theorem: [axioms]}, problems)"""
    names = theorem_names(prop)
    src = ''.join('import CvxVerif.%s.%s\n' % (os.path.basename(os.path.dirname(f)), os.path.basename(f)[:-5]) for f in prop_files(prop)) + ''.join('import %s\n' % i for i in extra_imports)
    src += ''.join('#print axioms %s\n' % n for n in names)
    d = scratch_dir('cvxaudit_')
    f = os.path.join(d, 'Audit.lean')
    open(f, 'w').write(src)
    with _Lock():
        rc, out, err = run(['lake', 'env', 'lean', f], cwd=LEAN)
    txt = out + err
    res, problems = {}, []
    # output format: 'Name' depends on axioms: [a, b]   |   'Name' does not depend on any axioms
    for m in re.finditer(r"'([^']+)' (?:depends on axioms: \[([^\]]*)\]|does not depend on any axioms)", txt):
        ax = [a.strip() for a in (m.group(2) or '').replace('\n', ' ').split(',') if a.strip()]
        res[m.group(1)] = ax
        bad = [a for a in ax if a not in ALLOWED_AXIOMS]
        if bad: problems.append('%s uses axioms %s' % (m.group(1), bad))
    for n in names:
        if n not in res: problems.append('theorem %s not found by audit' % n)
    if rc != 0: problems.append('audit file did not compile: ' + txt[-500:])
    return (not problems), res, problems

def grep_forbidden(prop_files):
    hits = []
    for f in prop_files:
        incomment = 0
        for i, line in enumerate(open(f), 1):
            code = line
            # strip block comments (coarse) and line comments
            if '/-' in code: incomment += code.count('/-')
            if incomment:
                if '-/' in code: incomment -= code.count('-/')
                continue
            code = code.split('--')[0]
            if FORBIDDEN.search(code): hits.append('%s:%d: %s' % (f, i, line.strip()))
    return hits

def lean_files_of(prop, modules):
    fs = prop_files(prop)
    for m in modules:
        fs.append(os.path.join(LEAN, *m.split('.')) + '.lean')
    return [f for f in fs if os.path.exists(f)]

def drive(driver, lines, timeout=3000):
    """pipe protocol lines to lean/Drivers/<driver>.lean; returns the output lines"""
    # the driver runs against compiled modules: make sure every module it imports is up to date (a stale .olean of a module
    # that depends on a regenerated Gen/*.lean would be loaded without any check)
    dsrc = open(os.path.join(LEAN, 'Drivers', driver + '.lean')).read()
    mods = re.findall(r'^import\s+(CvxVerif\.\S+)', dsrc, flags=re.M)
    ok, log = lean_build(mods)
    if not ok: raise RuntimeError('modules of driver %s do not build: %s' % (driver, log[-1500:]))
    inp = '\n'.join(lines) + '\n'
    rc, out, err = run(['lake', 'env', 'lean', '--run', os.path.join('Drivers', driver + '.lean')],
                       cwd=LEAN, input=inp, timeout=timeout)
    if rc != 0:
        raise RuntimeError('driver %s failed (rc %s): stderr %s ... stdout tail %s' % (driver, rc, err[-1500:], out[-300:]))
    res = out.split('\n')
    if res and res[-1] == '': res.pop()
    if len(res) != len(lines):
        raise RuntimeError('driver %s: %d lines in, %d lines out' % (driver, len(lines), len(res)))
    return res

def load_known():
    p = os.path.join(VERIF, 'known_findings.json')
    if not os.path.exists(p): return {'findings': [], 'fixed': []}
    return json.load(open(p))

def write_replay(prop, payload):
    d = os.path.join(VERIF, 'replays', prop)
    os.makedirs(d, exist_ok=True)
    blob = json.dumps(payload, sort_keys=True, indent=1, default=str)
    h = hashlib.sha1(blob.encode()).hexdigest()[:12]
    p = os.path.join(d, h + '.json')
    open(p, 'w').write(blob)
    return os.path.relpath(p, VERIF)

def seed():
    try: return int(os.environ.get('VERIF_SEED', '0'))
    except ValueError: return 0

def ddmin(items, fails, max_tests=400):
    """delta debugging: smallest sublist (order kept) of `items` for which fails(sublist) is True"""
    assert fails(items)
    n, tests = 2, 0
    while len(items) >= 2 and tests < max_tests:
        chunk = max(1, len(items) // n)
        subsets = [items[i:i + chunk] for i in range(0, len(items), chunk)]
        reduced = False
        for i in range(len(subsets)):
            comp = [x for j, s in enumerate(subsets) if j != i for x in s]
            tests += 1
            if comp and fails(comp):
                items, n, reduced = comp, max(n - 1, 2), True
                break
        if not reduced:
            if chunk == 1: break
            n = min(len(items), n * 2)
    if len(items) == 1 and False: pass
    return items
