import CvxVerif.Gen.Exits
import Mathlib.Algebra.Order.Field.Basic
import Mathlib.Tactic.Linarith
import Mathlib.Tactic.Ring

/-! C01 / C03 — the blocks of conelp / coneqp that move a starting point completed by the solver into the cone (regenerated table
`Gen/Exits.lean`, `shifts` and `amount`). -/
namespace CvxVerif.Exits
open CvxVerif.Gen.Exits

/-! ### starting points moved into the cone -/

/-- each block tests, and shifts by, the `max_step` of the very vector it updates, and updates the 'l', 'q' and 's' parts of it -/
theorem C01_shift_blocks_consistent :
    ∀ s ∈ shifts, s.amountOf = s.guard ∧
      (∃ v ∈ ["s", "z"], s.vecs = [v, v, v] ∧ s.guardDef = "misc.max_step(" ++ v ++ ", dims)" ∧ s.nrmDef = "misc.snrm2(" ++ v ++ ", dims)") ∧
      s.idx = [":dims['l']", "indq[:-1]", "ind:ind + m * m:m + 1"] := by
  decide +kernel

theorem C01_shift_blocks_present : shifts.length = 6 := by decide +kernel

/-- `max_step(v) = t` means `t` is the least number with `v + t e ⪰ 0`; adding `a e` lowers it by `a`.  With the generated amount the
new value is `-1`: the shifted vector has margin one. -/
theorem C01_shift_amount {K : Type} [Field K] [LinearOrder K] [IsStrictOrderedRing K] (k : Nat) (hk : k < shifts.length) (t : K) :
    t - amount k t = -1 := by
  have h6 : shifts.length = 6 := C01_shift_blocks_present
  rw [h6] at hk
  rcases k with _ | _ | _ | _ | _ | _ | k <;> simp only [amount] <;> first | (exfalso; omega) | ring

/-- orthant instance, spelled out: if `t` bounds `-v i` for all `i` (as `max_step` does), then after the shift every component is `≥ 1` -/
theorem C01_shift_orthant {K : Type} [Field K] [LinearOrder K] [IsStrictOrderedRing K] (k : Nat) (hk : k < shifts.length)
    (v : List K) (t : K) (ht : ∀ a ∈ v, -a ≤ t) : ∀ a ∈ v.map (· + amount k t), 1 ≤ a := by
  intro a ha
  obtain ⟨b, hb, rfl⟩ := List.mem_map.mp ha
  have h1 := C01_shift_amount k hk t
  have h2 := ht b hb
  linarith

example : (3 : ℚ) - amount 3 3 = -1 := by norm_num [amount]

end CvxVerif.Exits
