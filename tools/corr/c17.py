"""C17: cvxopt.blas wrappers vs the Lean reference semantics (Model/BlasSpec.lean) applied to the integer arguments that the
generated argument prefix (Gen/BlasWrap.lean) produces: defaults, offsets, increments, leading dimensions, flags; exact
comparison of the full contents of every argument on integer / Gaussian-integer data."""
import os, sys, random, math, re
from fractions import Fraction
import vlib
sys.path.insert(0, os.path.join(vlib.VERIF, 'tools', 'translate'))

LEAN_TARGETS = ['CvxVerif.Props.C17', 'CvxVerif.Props.C17More', 'CvxVerif.Props.C17Calls']
MODEL_FILES = ['CvxVerif.Model.BlasSpec', 'CvxVerif.Model.CWrap', 'CvxVerif.Gen.BlasWrap', 'CvxVerif.Proofs.BlasSpec', 'CvxVerif.Gen.CallArgs']
LEVEL = 'proof'
TRUSTED = ['translator tools/translate/ccall2lean.py (which Fortran routine is called under which case label -> Gen/CallArgs.lean) and the hand-written naming scheme / alias list of Props/C17Calls.lean',
           'hand-written reference semantics lean/CvxVerif/Model/BlasSpec.lean (from the reference BLAS definitions)',
           'translator cwrap2lean (defaults and accept logic of each wrapper)', 'the numerical kernel is the external BLAS (OpenBLAS), '
           'compared exactly on integer-grid data']
ASSUMPTIONS = ['data are small integers / Gaussian integers (and powers of two on triangular diagonals), so every operation is exact in doubles',
               'routines compared: all 34 wrappers of blas.c (levels 1-3, including band, Hermitian and rank-2k routines and the triangular solves)']

SPEC = ['swap', 'scal', 'copy', 'axpy', 'dot', 'dotu', 'asum', 'nrm2', 'iamax', 'gemv', 'symv', 'hemv', 'ger', 'geru', 'syr', 'her',
        'trmv', 'tbmv', 'trsv', 'tbsv', 'gemm', 'syrk', 'trmm',
        'gbmv', 'sbmv', 'hbmv', 'syr2', 'her2', 'symm', 'hemm', 'herk', 'syr2k', 'her2k', 'trsm']

def translate(ctx):
    import cwrap2lean
    try:
        t = cwrap2lean.gen_blas_safety(); cwrap2lean.gen_blas_driver(t); ctx.table = t
    except Exception as e:
        return ['cwrap2lean: %s: %s' % (type(e).__name__, e)]
    try:
        import ccall2lean; ccall2lean.gen_callargs()
    except Exception as e:
        return ['ccall2lean.gen_callargs: %s: %s' % (type(e).__name__, e)]
    return []

def frs(x):
    f = Fraction(x); return str(f.numerator) if f.denominator == 1 else '%d/%d' % (f.numerator, f.denominator)
def ntok(v):
    if isinstance(v, complex): return frs(v.real) if v.imag == 0 else '%s:%s' % (frs(v.real), frs(v.imag))
    return frs(v)
def btok(M): return ','.join(ntok(v) for v in M) if len(M) else '-'

def correspond(ctx):
    cvxopt = vlib.use_build(ctx.build)
    from cvxopt import matrix, blas
    import cwrap2lean
    table = {r['name']: r for r in (getattr(ctx, 'table', None) or cwrap2lean.gen_blas())}
    src = cwrap2lean.strip_pp(open(os.path.join(vlib.REPO, 'src', 'C', 'blas.c')).read())
    for r in table.values():
        m = re.search(r'static PyObject\s*\*\s*%s\s*\(.*?PyArg_ParseTupleAndKeywords\(args, kwrds,\s*"[^"]*",\s*kwlist,(.*?)\)\)' % r['name'], src, flags=re.S)
        cv = [v.strip().lstrip('&') for v in m.group(1).split(',')]
        r['kwmap'] = dict(zip(r['kwlist'], [v[:-1] if v.endswith('_') else v for v in cv]))
    rng = random.Random(ctx.seed * 7 + 17)
    per = 80 if ctx.quick() else 1500
    # real-only / complex-only routines (the `switch (MAT_ID(..))` of the wrapper): probed on the implementation
    TCS = {}
    for name in SPEC:
        TCS[name] = 'dz'
    for name, tcs in (('symv', 'd'), ('syr', 'd'), ('sbmv', 'd'), ('syr2', 'd')): TCS[name] = tcs
    lines, obs, meta = [], [], []
    def val(tc):
        return float(rng.randint(-3, 3)) if tc == 'd' else complex(rng.randint(-2, 2), rng.randint(-2, 2))
    for name in SPEC:
        r = table[name]
        for it in range(per):
            tc = rng.choice(TCS[name])
            kw = {}
            mats = {}
            n, m, k = rng.randint(0, 4), rng.randint(0, 4), rng.randint(0, 3)
            def vecbuf(ln):
                inc = rng.choice([1, 1, 2, 3, -1, -2]) if name not in ('scal', 'nrm2', 'asum', 'iamax') else rng.choice([1, 2, 3])
                off = rng.randint(0, 2)
                extra = rng.randint(0, 2)
                L = off + (max(ln, 1) - 1) * abs(inc) + 1 + extra if ln > 0 else off + extra
                return inc, off, matrix([val(tc) for _ in range(L)], (L, 1), tc)
            def matbuf(rows, cols, tri=False):
                ld = max(1, rows) + rng.randint(0, 2)
                off = rng.randint(0, 2)
                L = off + (max(cols, 1) - 1) * ld + max(rows, 1) + rng.randint(0, 2)
                vals = [val(tc) for _ in range(L)]
                if tri:     # well-conditioned triangular data: powers of two on every position that can be a diagonal entry
                    vals = [(float(rng.choice([1, 2, -1, -2])) if tc == 'd' else complex(rng.choice([1, 2, -1, -2]), 0)) for v in vals]
                return ld, off, matrix(vals, (L, 1), tc)
            given = lambda: rng.random() < 0.7
            trans = rng.choice('NTC'); uplo = rng.choice('LU'); diag = rng.choice('NU'); side = rng.choice('LR')
            if name in ('swap', 'copy', 'axpy', 'dot', 'dotu'):
                ix, ox, x = vecbuf(n); iy, oy, y = vecbuf(n)
                mats = {'x': x, 'y': y}; kw = {'n': n, 'incx': ix, 'incy': iy, 'offsetx': ox, 'offsety': oy}
                if name == 'axpy' and given(): kw['alpha'] = val(tc)
            elif name in ('scal', 'nrm2', 'asum', 'iamax'):
                ix, ox, x = vecbuf(n); mats = {'x': x}; kw = {'n': n, 'inc': ix, 'offset': ox}
                if name == 'scal': kw['alpha'] = val(tc)
            elif name == 'gemv':
                ld, oA, A = matbuf(m, n); lx, ly = (n, m) if trans == 'N' else (m, n)
                ix, ox, x = vecbuf(lx); iy, oy, y = vecbuf(ly)
                mats = {'A': A, 'x': x, 'y': y}
                kw = {'trans': trans, 'm': m, 'n': n, 'ldA': ld, 'incx': ix, 'incy': iy, 'offsetA': oA, 'offsetx': ox, 'offsety': oy, 'alpha': val(tc), 'beta': val(tc)}
            elif name in ('symv', 'hemv'):
                ld, oA, A = matbuf(n, n); ix, ox, x = vecbuf(n); iy, oy, y = vecbuf(n)
                mats = {'A': A, 'x': x, 'y': y}
                kw = {'uplo': uplo, 'n': n, 'ldA': ld, 'incx': ix, 'incy': iy, 'offsetA': oA, 'offsetx': ox, 'offsety': oy, 'alpha': val(tc), 'beta': val(tc)}
            elif name in ('ger', 'geru'):
                ld, oA, A = matbuf(m, n); ix, ox, x = vecbuf(m); iy, oy, y = vecbuf(n)
                mats = {'x': x, 'y': y, 'A': A}
                kw = {'m': m, 'n': n, 'ldA': ld, 'incx': ix, 'incy': iy, 'offsetA': oA, 'offsetx': ox, 'offsety': oy, 'alpha': val(tc)}
            elif name in ('syr', 'her'):
                ld, oA, A = matbuf(n, n); ix, ox, x = vecbuf(n)
                mats = {'x': x, 'A': A}
                kw = {'uplo': uplo, 'n': n, 'ldA': ld, 'incx': ix, 'offsetA': oA, 'offsetx': ox, 'alpha': float(rng.randint(-2, 2))}
            elif name in ('trmv', 'trsv'):
                ld, oA, A = matbuf(n, n, tri=True); ix, ox, x = vecbuf(n)
                mats = {'A': A, 'x': x}
                kw = {'uplo': uplo, 'trans': trans, 'diag': diag, 'n': n, 'ldA': ld, 'incx': ix, 'offsetA': oA, 'offsetx': ox}
            elif name in ('tbmv', 'tbsv'):
                ld, oA, A = matbuf(k + 1, n, tri=True); ix, ox, x = vecbuf(n)
                mats = {'A': A, 'x': x}
                kw = {'uplo': uplo, 'trans': trans, 'diag': diag, 'n': n, 'k': k, 'ldA': ld, 'incx': ix, 'offsetA': oA, 'offsetx': ox}
            elif name == 'gemm':
                tA, tB = rng.choice('NTC'), rng.choice('NTC')
                ldA, oA, A = matbuf(*((m, k) if tA == 'N' else (k, m))); ldB, oB, B = matbuf(*((k, n) if tB == 'N' else (n, k))); ldC, oC, C = matbuf(m, n)
                mats = {'A': A, 'B': B, 'C': C}
                kw = {'transA': tA, 'transB': tB, 'm': m, 'n': n, 'k': k, 'ldA': ldA, 'ldB': ldB, 'ldC': ldC, 'offsetA': oA, 'offsetB': oB, 'offsetC': oC,
                      'alpha': val(tc), 'beta': val(tc)}
            elif name == 'syrk':
                tr = rng.choice('NT')
                ldA, oA, A = matbuf(*((n, k) if tr == 'N' else (k, n))); ldC, oC, C = matbuf(n, n)
                mats = {'A': A, 'C': C}
                kw = {'uplo': uplo, 'trans': tr, 'n': n, 'k': k, 'ldA': ldA, 'ldC': ldC, 'offsetA': oA, 'offsetC': oC, 'alpha': val(tc), 'beta': val(tc)}
            elif name == 'trmm':
                dimA = m if side == 'L' else n
                ldA, oA, A = matbuf(dimA, dimA, tri=True); ldB, oB, B = matbuf(m, n)
                mats = {'A': A, 'B': B}
                kw = {'side': side, 'uplo': uplo, 'transA': trans, 'diag': diag, 'm': m, 'n': n, 'ldA': ldA, 'ldB': ldB, 'offsetA': oA, 'offsetB': oB, 'alpha': val(tc)}
            elif name == 'gbmv':
                kl, ku = rng.randint(0, 2), rng.randint(0, 2)
                ld, oA, A = matbuf(kl + ku + 1, n); lx, ly = (n, m) if trans == 'N' else (m, n)
                ix, ox, x = vecbuf(lx); iy, oy, y = vecbuf(ly)
                mats = {'A': A, 'x': x, 'y': y}
                kw = {'m': m, 'kl': kl, 'trans': trans, 'n': n, 'ku': ku, 'ldA': ld, 'incx': ix, 'incy': iy, 'offsetA': oA, 'offsetx': ox, 'offsety': oy, 'alpha': val(tc), 'beta': val(tc)}
            elif name in ('sbmv', 'hbmv'):
                ld, oA, A = matbuf(k + 1, n); ix, ox, x = vecbuf(n); iy, oy, y = vecbuf(n)
                mats = {'A': A, 'x': x, 'y': y}
                kw = {'uplo': uplo, 'n': n, 'k': k, 'ldA': ld, 'incx': ix, 'incy': iy, 'offsetA': oA, 'offsetx': ox, 'offsety': oy, 'alpha': val(tc), 'beta': val(tc)}
            elif name in ('syr2', 'her2'):
                ld, oA, A = matbuf(n, n); ix, ox, x = vecbuf(n); iy, oy, y = vecbuf(n)
                mats = {'x': x, 'y': y, 'A': A}
                kw = {'uplo': uplo, 'n': n, 'ldA': ld, 'incx': ix, 'incy': iy, 'offsetA': oA, 'offsetx': ox, 'offsety': oy, 'alpha': val(tc)}
            elif name in ('symm', 'hemm'):
                dimA = m if side == 'L' else n
                ldA, oA, A = matbuf(dimA, dimA); ldB, oB, B = matbuf(m, n); ldC, oC, C = matbuf(m, n)
                mats = {'A': A, 'B': B, 'C': C}
                kw = {'side': side, 'uplo': uplo, 'm': m, 'n': n, 'ldA': ldA, 'ldB': ldB, 'ldC': ldC, 'offsetA': oA, 'offsetB': oB, 'offsetC': oC, 'alpha': val(tc), 'beta': val(tc)}
            elif name == 'herk':
                tr = rng.choice('NC' if tc == 'z' else 'NTC')
                ldA, oA, A = matbuf(*((n, k) if tr == 'N' else (k, n))); ldC, oC, C = matbuf(n, n)
                mats = {'A': A, 'C': C}
                kw = {'uplo': uplo, 'trans': tr, 'n': n, 'k': k, 'ldA': ldA, 'ldC': ldC, 'offsetA': oA, 'offsetC': oC, 'alpha': float(rng.randint(-2, 2)), 'beta': float(rng.randint(-2, 2))}
            elif name in ('syr2k', 'her2k'):
                tr = rng.choice('NT') if name == 'syr2k' else rng.choice('NC' if tc == 'z' else 'NTC')
                ldA, oA, A = matbuf(*((n, k) if tr == 'N' else (k, n))); ldB, oB, B = matbuf(*((n, k) if tr == 'N' else (k, n))); ldC, oC, C = matbuf(n, n)
                mats = {'A': A, 'B': B, 'C': C}
                kw = {'uplo': uplo, 'trans': tr, 'n': n, 'k': k, 'ldA': ldA, 'ldB': ldB, 'ldC': ldC, 'offsetA': oA, 'offsetB': oB, 'offsetC': oC, 'alpha': val(tc),
                      'beta': (float(rng.randint(-2, 2)) if name == 'her2k' else val(tc))}
            elif name == 'trsm':
                dimA = m if side == 'L' else n
                ldA, oA, A = matbuf(dimA, dimA, tri=True); ldB, oB, B = matbuf(m, n)
                mats = {'A': A, 'B': B}
                kw = {'side': side, 'uplo': uplo, 'transA': trans, 'diag': diag, 'm': m, 'n': n, 'ldA': ldA, 'ldB': ldB, 'offsetA': oA, 'offsetB': oB, 'alpha': val(tc)}
            # documented default of n (level 1): the implementation is called without n, the reference semantics with the documented value
            # n = 1 + (len(x) - offsetx - 1) / |incx| (0 if len(x) < offsetx + 1), computed here and not taken from the generated prefix
            omit_n = False
            if name in ('swap', 'copy', 'axpy', 'dot', 'dotu', 'scal', 'nrm2', 'asum', 'iamax') and rng.random() < 0.4:
                omit_n = True
                incx = kw.get('incx', kw.get('inc')); offx = kw.get('offsetx', kw.get('offset'))
                ndef = 1 + (len(mats['x']) - offx - 1) // abs(incx) if len(mats['x']) >= offx + 1 else 0
                if 'y' in mats:
                    # y gets the same default length (swap, dot, dotu refuse unequal default lengths with ValueError)
                    Ly = kw['offsety'] + (ndef - 1) * abs(kw['incy']) + 1 + rng.randint(0, abs(kw['incy']) - 1) if ndef > 0 else rng.randint(0, kw['offsety'])
                    mats['y'] = matrix([val(tc) for _ in range(Ly)], (Ly, 1), tc)
                kw['n'] = ndef
            # sometimes corrupt one integer argument (exercises the reject path: arguments must stay untouched)
            corrupted = False
            if rng.random() < 0.12 and not omit_n:
                ik = [q for q in kw if isinstance(kw[q], int) and not isinstance(kw[q], bool)]
                if ik: kw[rng.choice(ik)] = rng.choice([-1, 0, 9, 17]); corrupted = True
            # ... or cut one or two elements off the end of a vector argument (its footprint then no longer fits: the call must be refused,
            # for increments of either sign)
            if not corrupted and not omit_n and rng.random() < 0.2 and name not in ('gemm', 'syrk', 'herk', 'syr2k', 'her2k', 'symm', 'hemm', 'trmm', 'trsm'):
                vq = [q for q in ('x', 'y') if q in mats]
                nl_ = kw.get('n', 0); ml_ = kw.get('m', nl_); tr0 = kw.get('trans', 'N')
                vl_ = {'x': nl_, 'y': nl_}
                if name in ('gemv', 'gbmv'): vl_ = {'x': (nl_ if tr0 == 'N' else ml_), 'y': (ml_ if tr0 == 'N' else nl_)}
                if name in ('ger', 'geru'): vl_ = {'x': ml_, 'y': nl_}
                if vq and nl_ > 0 and ml_ > 0:
                    q = rng.choice(vq)
                    negq = [t for t in vq if kw.get('inc' + t, kw.get('inc', 1)) < 0 and vl_[t] >= 2]
                    if negq and rng.random() < 0.7: q = rng.choice(negq)          # (with one element the sign of the increment does not matter)
                    need = kw.get('offset' + q, kw.get('offset', 0)) + (vl_[q] - 1) * abs(kw.get('inc' + q, kw.get('inc', 1))) + 1
                    newlen = max(0, need - rng.choice([1, 1, 2]))
                    if vl_[q] > 0 and newlen < need:
                        mats[q] = matrix(list(mats[q])[:newlen], (newlen, 1), mats[q].typecode); corrupted = True
            # the protocol line: everything the generated prefix needs
            env = {}
            for q, M in mats.items():
                env['%s_isMat' % q] = 1; env['%s_id' % q] = 'idz'.index(M.typecode); env['%s_len' % q] = len(M)
                env['%s_nrows' % q] = M.size[0]; env['%s_ncols' % q] = M.size[1]
            for kwname, cname in r['kwmap'].items():
                if cname in r['ints']: env[cname] = r['ints'][cname]
                if cname in r['chars']: env[cname] = r['chars'][cname]
                if kwname in kw and kwname not in ('alpha', 'beta'):
                    v = kw[kwname]; env[cname] = ord(v) if isinstance(v, str) else v
            line = 'op %s %s %s' % (name, ' '.join('%s=%d' % kv for kv in env.items()), ' '.join('b%s=%s' % (q, btok(M)) for q, M in mats.items()))
            if 'alpha' in kw: line += ' alpha=' + ntok(kw['alpha'])
            if 'beta' in kw: line += ' beta=' + ntok(kw['beta'])
            before = {q: list(M) for q, M in mats.items()}
            try:
                callkw = dict(kw, **mats)
                if omit_n and kw.get('n') == ndef: del callkw['n']
                res = getattr(blas, name)(**callkw)
                o = 'ok ' + ' '.join('%s=%s' % (q, btok(mats[q]) if q in mats else '-') for q in ('x', 'y', 'A', 'B', 'C'))
                # soundness, independently of the translated checks: an accepted call addresses its vector arguments inside their buffers
                # (off + (len - 1)*|inc| + 1 <= size, for the vector length the routine uses)
                nloc = kw.get('n', 0); mloc = kw.get('m', nloc)
                tr_ = kw.get('trans', 'N')
                vlen = {'x': nloc, 'y': nloc}
                if name in ('gemv', 'gbmv'): vlen = {'x': (nloc if tr_ == 'N' else mloc), 'y': (mloc if tr_ == 'N' else nloc)}
                if name in ('ger', 'geru'): vlen = {'x': mloc, 'y': nloc}
                noop = (isinstance(nloc, int) and nloc <= 0) or (name in ('gemv', 'gbmv', 'ger', 'geru') and isinstance(mloc, int) and mloc <= 0)
                for q_ in ('x', 'y'):
                    if noop: break          # an empty operation returns before looking at its arguments (nothing is addressed)
                    if q_ not in mats or name in ('gemm', 'syrk', 'herk', 'syr2k', 'her2k', 'symm', 'hemm', 'trmm', 'trsm'): continue
                    inc_ = kw.get('inc' + q_, kw.get('inc', 1)); off_ = kw.get('offset' + q_, kw.get('offset', 0)); ln_ = vlen[q_]
                    if isinstance(ln_, int) and ln_ > 0 and isinstance(inc_, int) and inc_ != 0 and off_ >= 0 and off_ + (ln_ - 1) * abs(inc_) + 1 > len(mats[q_]):
                        ctx.violation('c17:inconsistent-call-accepted:' + name, 'blas.%s accepted a call whose vector %s (offset %d, increment %d, %d elements) does not fit in its buffer of %d elements'
                                      % (name, q_, off_, inc_, ln_, len(mats[q_])), {'line': line, 'kw': {k: (v if not isinstance(v, complex) else [v.real, v.imag]) for k, v in kw.items()}})
                if name in ('dot', 'dotu', 'asum', 'iamax') and res is not None: o += ' val=' + ntok(res if not isinstance(res, int) else res)
                if name == 'nrm2' and res is not None: o += ' val2~%r' % (res * res)
            except Exception as e:
                o = 'reject ' + type(e).__name__
                if not corrupted:
                    # completeness: the call was built to be consistent (typecodes equal, dimensions >= 0, leading dimensions >= the minimum,
                    # every addressed footprint inside its buffer, flags from the documented set): it must be carried out
                    ctx.violation('c17:valid-call-rejected:' + name, 'blas.%s refused a consistent call with %s (%s): %s' % (name, type(e).__name__, e, {k: v for k, v in kw.items()}),
                                  {'line': line, 'kw': {k: (v if not isinstance(v, complex) else [v.real, v.imag]) for k, v in kw.items()}, 'sizes': {q: len(M) for q, M in mats.items()}})
                if any(list(mats[q]) != before[q] for q in mats):
                    ctx.violation('c17:rejected-call-modified-arguments:' + name, 'blas.%s raised %s but modified an argument' % (name, type(e).__name__), {'line': line})
            lines.append(line); obs.append(o); meta.append((name, dict(kw)))
    out = vlib.drive('C17', lines)
    dis = 0
    def bad_ld(name, kw):
        """a leading dimension of A / B below what BLAS requires (the wrappers do not look at it when k = 0)"""
        k = kw.get('k', 0); n = kw.get('n', 0); m = kw.get('m', 0)
        ld = lambda q: kw.get(q) or 10**9          # 0 / omitted: the default (the row count of the buffer), always large enough here
        if name == 'gemm':
            return ld('ldA') < max(1, m if kw.get('transA') == 'N' else k) or ld('ldB') < max(1, k if kw.get('transB') == 'N' else n)
        tr = kw.get('trans', 'N')
        return ld('ldA') < max(1, n if tr == 'N' else k) or ('ldB' in kw and ld('ldB') < max(1, n if tr == 'N' else k))
    for l, o, m_, (name, kwm) in zip(lines, obs, out, meta):
        kval = kwm.get('k')
        ok = (o == m_)
        if not ok and name == 'nrm2' and ' val2' in o and ' val2' in m_:
            a = float(o.split('val2~')[1]); b = float(Fraction(m_.split('val2=')[1]))
            ok = o.split(' val2')[0] == m_.split(' val2')[0] and abs(a - b) <= 1e-9 * max(1.0, abs(b))
        if not ok and name in ('dot', 'dotu', 'asum', 'iamax', 'nrm2') and 'val' in o and 'val' not in m_:
            ok = o.split(' val')[0] == m_ and o.split('=')[-1].split('~')[-1] in ('0', '0.0')      # n = 0: the wrapper returns 0
        if not ok:
            dis += 1
            if name in ('gemm', 'syrk', 'herk', 'syr2k', 'her2k') and kval == 0 and o.startswith('ok') and m_.startswith('ok') and bad_ld(name, kwm):
                # family: with k = 0 the wrapper skips the leading-dimension checks, the BLAS routine then rejects the call (xerbla) and
                # C is not scaled by beta
                ctx.violation('c17:k0-leading-dimension-unchecked:' + name, 'blas.%s with k=0 and an invalid leading dimension is accepted; BLAS rejects it (xerbla message) and C is not scaled by beta' % name, {'line': l, 'impl': o, 'model': m_})
                continue
            if dis <= 4:
                ctx.violation('c17:%s:%s' % (name, 'exception' if (o.startswith('reject') or m_.startswith('reject')) else 'value'),
                              'blas.%s: implementation and reference semantics differ: impl `%s` model `%s`' % (name, o[:150], m_[:150]), {'line': l, 'impl': o, 'model': m_})
    # ---- documented default leading dimensions (independent of the translated prefix): operands that are true 2-D matrices with spare rows (a different
    # number for each), dimensions given, every ld keyword omitted - the call must do exactly what the same call with ldX = max(1, X.size[0]) does
    from cvxopt import blas as _blas
    rng_l = random.Random(ctx.seed * 8191 + 171)
    nld = 0
    def m2(rows, cols, tc, tri=False):
        R = max(rows, 1) + rng_l.randint(0, 2)
        v = lambda: (float(rng_l.randint(-3, 3)) if tc == 'd' else complex(rng_l.randint(-2, 2), rng_l.randint(-2, 2)))
        A_ = matrix([v() for _ in range(R * max(cols, 1))], (R, max(cols, 1)), tc)
        if tri:
            for i_ in range(min(R, max(cols, 1))): A_[i_, i_] = float(rng_l.choice([1, 2, -1, -2]))
        return A_
    for it in range(40 if ctx.quick() else 2000):
        name = rng_l.choice(['gemm', 'symm', 'hemm', 'syrk', 'herk', 'syr2k', 'her2k', 'trmm', 'trsm', 'gemv', 'ger', 'symv', 'syr', 'trmv'])
        tc = rng_l.choice('dz') if name not in ('symv', 'syr') else 'd'
        m, n, k = rng_l.randint(1, 3), rng_l.randint(1, 3), rng_l.randint(1, 3)
        side, uplo, tA, tB = rng_l.choice('LR'), rng_l.choice('LU'), rng_l.choice('NT'), rng_l.choice('NT')
        al = 2.0
        if name == 'gemm':
            ops = [('A', m2(*((m, k) if tA == 'N' else (k, m)), tc)), ('B', m2(*((k, n) if tB == 'N' else (n, k)), tc)), ('C', m2(m, n, tc))]
            kw = dict(transA=tA, transB=tB, m=m, n=n, k=k, alpha=al, beta=1.0)
        elif name in ('symm', 'hemm'):
            dA = m if side == 'L' else n
            ops = [('A', m2(dA, dA, tc)), ('B', m2(m, n, tc)), ('C', m2(m, n, tc))]; kw = dict(side=side, uplo=uplo, m=m, n=n, alpha=al, beta=1.0)
        elif name in ('syrk', 'herk'):
            tr = rng_l.choice('NT' if name == 'syrk' or tc == 'd' else 'NC')
            ops = [('A', m2(*((n, k) if tr == 'N' else (k, n)), tc)), ('C', m2(n, n, tc))]; kw = dict(uplo=uplo, trans=tr, n=n, k=k, alpha=al, beta=1.0)
        elif name in ('syr2k', 'her2k'):
            tr = rng_l.choice('NT' if name == 'syr2k' or tc == 'd' else 'NC')
            sh = (n, k) if tr == 'N' else (k, n)
            ops = [('A', m2(*sh, tc)), ('B', m2(*sh, tc)), ('C', m2(n, n, tc))]; kw = dict(uplo=uplo, trans=tr, n=n, k=k, alpha=al, beta=1.0)
        elif name in ('trmm', 'trsm'):
            dA = m if side == 'L' else n
            ops = [('A', m2(dA, dA, tc, tri=True)), ('B', m2(m, n, tc))]; kw = dict(side=side, uplo=uplo, transA=tA, m=m, n=n, alpha=al)
        elif name == 'gemv':
            ops = [('A', m2(m, n, tc)), ('x', m2(n if tA == 'N' else m, 1, tc)), ('y', m2(m if tA == 'N' else n, 1, tc))]; kw = dict(trans=tA, m=m, n=n, alpha=al, beta=1.0)
        elif name == 'ger':
            ops = [('x', m2(m, 1, tc)), ('y', m2(n, 1, tc)), ('A', m2(m, n, tc))]; kw = dict(m=m, n=n, alpha=al)
        elif name == 'symv':
            ops = [('A', m2(n, n, tc)), ('x', m2(n, 1, tc)), ('y', m2(n, 1, tc))]; kw = dict(uplo=uplo, n=n, alpha=al, beta=1.0)
        elif name == 'syr':
            ops = [('x', m2(n, 1, tc)), ('A', m2(n, n, tc))]; kw = dict(uplo=uplo, n=n, alpha=al)
        else:
            ops = [('A', m2(n, n, tc, tri=True)), ('x', m2(n, 1, tc))]; kw = dict(uplo=uplo, trans=tA, n=n)
        a1 = [+v for _, v in ops]; a2 = [+v for _, v in ops]
        kw2 = dict(kw)
        for nm_, v in ops:
            if v.size[1] > 1 or nm_ in ('A', 'B', 'C'): kw2['ld' + nm_] = max(1, v.size[0])
        nld += 1
        def run_(args_, kws):
            try: getattr(_blas, name)(*args_, **kws); return 'ok'
            except Exception as e: return type(e).__name__
        r1, r2 = run_(a1, kw), run_(a2, kw2)
        if r1 != r2 or any(list(u) != list(w) for u, w in zip(a1, a2)):
            ctx.violation('c17:default-leading-dimension:' + name, 'blas.%s(%s; operands %s) without ld keywords (%s) differs from the same call with the documented defaults %s (%s)'
                          % (name, kw, [(nm_, v.size) for nm_, v in ops], r1, {k_: v_ for k_, v_ in kw2.items() if k_.startswith('ld')}, r2),
                          {'routine': name, 'kw': {k_: str(v_) for k_, v_ in kw.items()}, 'sizes': {nm_: list(v.size) for nm_, v in ops}})
    ctx.cov['default_ld_cases'] = nld
    ctx.cov.update({'evaluations': len(lines), 'distinct_nontrivial': len(set(lines)),
                    'rule': '%d calls per routine x %d routines: typecodes d/z, dimensions 0..4, random offsets, increments (negative where allowed), leading '
                            'dimensions >= minimum, every flag combination, alpha/beta given or omitted, 12%% with one corrupted integer argument; all '
                            'arguments compared exactly with the Lean reference semantics' % (per, len(SPEC)),
                    'protocol_lines_compared': len(lines), 'disagreements_checked': dis})
    ctx.samples += lines[:2]

def search(ctx, why): return
def replay(ctx, payload): correspond(ctx)
