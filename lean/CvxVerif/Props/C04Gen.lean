import CvxVerif.Gen.DecideNL
import CvxVerif.Props.C01

/-!
C04 — theorems about the stopping test and the result dictionary of `cpl`, regenerated from cvxprog.py on every run
(`Gen/DecideNL.lean`).  `cp` and `gp` return what `cpl` returns on their internal problems.
-/
namespace CvxVerif.C04
open CvxVerif.LAM CvxVerif.Gen.DecideNL

variable {K : Type} [Field K] [LinearOrder K] [IsStrictOrderedRing K]

/-- the two returns of the block are `'unknown'` (iteration limit) and `'optimal'` -/
theorem C04_return_statuses :
    cpl.returns.map (fun r => (r.1.find? (·.1 = "status")).map (·.2)) = [some "'unknown'", some "'optimal'"] := by decide

/-- **`'optimal'` is returned only when the documented stopping criterion holds** — for all values of the statistics and all tolerances:
both residuals within `FEASTOL` and the absolute or the (defined) relative gap within tolerance, and the iteration limit not reached. -/
theorem C04_optimal_only_when_converged (ABSTOL FEASTOL RELTOL : K) (M : Nat) (dres gap pres : K) (relgap : Option K) (iters : Nat)
    (h : cpl.branch ABSTOL FEASTOL M RELTOL dres gap pres relgap iters = .ret 1) :
    pres ≤ FEASTOL ∧ dres ≤ FEASTOL ∧ (gap ≤ ABSTOL ∨ ∃ r, relgap = some r ∧ r ≤ RELTOL) ∧ iters ≠ M := by
  unfold cpl.branch at h
  by_cases hit : iters = M
  · simp [hit] at h
  · have hb : (iters == M) = false := by simpa using hit
    simp only [hb, Bool.or_false, Bool.false_eq_true, if_false] at h
    split at h
    · rename_i hc
      simp only [Bool.and_eq_true, Bool.or_eq_true, decide_eq_true_eq] at hc
      obtain ⟨⟨hp, hd⟩, hg⟩ := hc
      refine ⟨hp, hd, ?_, hit⟩
      rcases hg with hg | ⟨hs, hr⟩
      · exact Or.inl hg
      · cases relgap with
        | none => simp at hs
        | some r => exact Or.inr ⟨r, rfl, by simpa [optCmp] using hr⟩
    · cases h

/-- at the iteration limit the status is `'unknown'`, whatever the statistics say -/
theorem C04_maxiters_exit (ABSTOL FEASTOL RELTOL : K) (M : Nat) (dres gap pres : K) (relgap : Option K) :
    cpl.branch ABSTOL FEASTOL M RELTOL dres gap pres relgap M = .ret 0 := by
  unfold cpl.branch; simp

/-- the result dictionary of the `'optimal'` return: every documented key comes from the variable of that name; the nonlinear and
linear parts are the two slices of `s` and `z` -/
theorem C04_result_map :
    (cpl.returns[1]?).map (·.1) = some
      [("status", "'optimal'"), ("x", "x"), ("y", "y"), ("znl", "z[:mnl]"), ("zl", "zl"), ("snl", "s[:mnl]"), ("sl", "sl"), ("gap", "gap"),
       ("relative gap", "relgap"), ("primal objective", "pcost"), ("dual objective", "dcost"), ("primal slack", "-ts"), ("dual slack", "-tz"),
       ("primal infeasibility", "pres"), ("dual infeasibility", "dres")] ∧
    cpl.aliases = [("sl", "s[mnl:]"), ("zl", "z[mnl:]")] := by decide

/-- both returned cone vectors have all their 's' blocks symmetrised with the correct offsets -/
theorem C04_symm_walk : ∀ r ∈ cpl.returns, r.2 = [("symm", "sl", C01.symmWalk), ("symm", "zl", C01.symmWalk)] := by decide

end CvxVerif.C04
