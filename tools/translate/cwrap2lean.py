#!/usr/bin/env python3
"""cwrap2lean: translates the argument-checking prefix of the C wrappers in /repo/src/C/blas.c (and others) into Lean
functions (lean/CvxVerif/Gen/BlasWrap.lean): for every routine, the statements between PyArg_ParseTupleAndKeywords and the
first `switch (MAT_ID(..))` -- default assignments, early returns, and every `if (cond) err_*` with its exception class --
become a pure function  In -> Outcome  over unbounded integers (ideal arithmetic).  The same parsed form is evaluated in
C `int` (wrap-around) arithmetic by `eval_c()` for the overflow search of C19.
Anything outside the grammar raises Untranslatable (a broken tie)."""
import os, re, sys

REPO = os.environ.get('VERIF_REPO', '/repo')
HERE = os.path.dirname(os.path.abspath(__file__))
GEN = os.path.join(os.path.dirname(os.path.dirname(HERE)), 'lean', 'CvxVerif', 'Gen')

class Untranslatable(Exception): pass

# ------------------------------------------------------------------------------------------------ error macros
def err_classes():
    """macro name -> Python exception class, read from misc.h"""
    src = open(os.path.join(REPO, 'src', 'C', 'misc.h')).read().replace('\\\n', ' ')
    out = {}
    for m in re.finditer(r'#define\s+(err_\w+)(\([^)]*\))?\s+(.*)', src):
        body = m.group(3)
        if 'PY_ERR_TYPE' in body or 'PyExc_TypeError' in body: out[m.group(1)] = 'TypeError'
        elif 'PyExc_ValueError' in body: out[m.group(1)] = 'ValueError'
    return out

# ------------------------------------------------------------------------------------------------ lexer
TOK = re.compile(r"\s*(?:(\d+)|([A-Za-z_]\w*)|'(.)'|(\"(?:[^\"\\]|\\.)*\")|(->|<=|>=|==|!=|&&|\|\||[-+*/%<>=!?:;,(){}\[\]&.]))")
def lex(src):
    out, pos = [], 0
    src = src.strip()
    while pos < len(src):
        m = TOK.match(src, pos)
        if not m: raise Untranslatable('cannot tokenize: ' + src[pos:pos + 30])
        pos = m.end()
        if m.group(1) is not None: out.append(('num', int(m.group(1))))
        elif m.group(2) is not None: out.append(('id', m.group(2)))
        elif m.group(3) is not None: out.append(('num', ord(m.group(3))))
        elif m.group(4) is not None: out.append(('str', m.group(4)))
        else: out.append(('op', m.group(5)))
    return out

# ------------------------------------------------------------------------------------------------ parser
class P:
    def __init__(self, toks, errs): self.t, self.i, self.errs, self.skipped = toks, 0, errs, []
    def peek(self, k=0): return self.t[self.i + k] if self.i + k < len(self.t) else ('eof', None)
    def eat(self, kind=None, val=None):
        tk = self.peek()
        if (kind and tk[0] != kind) or (val is not None and tk[1] != val):
            raise Untranslatable('expected %s %s, got %s near token %d' % (kind, val, tk, self.i))
        self.i += 1; return tk
    def at(self, val): return self.peek()[1] == val and self.peek()[0] in ('op', 'id')
    # expressions (C precedence): ?: < || < && < == != < relational < + - < * / % < unary < postfix
    def expr(self):
        c = self.lor()
        if self.at('?'):
            self.eat(); a = self.expr(); self.eat('op', ':'); b = self.expr()
            return ('cond', c, a, b)
        return c
    def lor(self):
        a = self.land()
        while self.at('||'): self.eat(); a = ('or', a, self.land())
        return a
    def land(self):
        a = self.eq()
        while self.at('&&'): self.eat(); a = ('and', a, self.eq())
        return a
    def eq(self):
        a = self.rel()
        while self.peek()[1] in ('==', '!=') and self.peek()[0] == 'op':
            o = self.eat()[1]; a = (o, a, self.rel())
        return a
    def rel(self):
        a = self.add()
        while self.peek()[1] in ('<', '>', '<=', '>=') and self.peek()[0] == 'op':
            o = self.eat()[1]; a = (o, a, self.add())
        return a
    def add(self):
        a = self.mul()
        while self.peek()[1] in ('+', '-') and self.peek()[0] == 'op':
            o = self.eat()[1]; a = (o, a, self.mul())
        return a
    def mul(self):
        a = self.unary()
        while self.peek()[1] in ('*', '/', '%') and self.peek()[0] == 'op':
            o = self.eat()[1]; a = (o, a, self.unary())
        return a
    def unary(self):
        if self.at('!'): self.eat(); return ('not', self.unary())
        if self.at('-') and self.peek()[0] == 'op': self.eat(); return ('neg', self.unary())
        if self.at('(') and self.peek(1) == ('id', 'char') and self.peek(2) == ('op', ')'):
            self.eat(); self.eat(); self.eat(); return self.unary()
        if self.at('(') and self.peek(1) == ('id', 'int') and self.peek(2) == ('op', ')'):
            self.eat(); self.eat(); self.eat(); return self.unary()
        return self.postfix()
    def postfix(self):
        tk = self.peek()
        if tk[0] == 'num': self.eat(); return ('num', tk[1])
        if tk == ('op', '('):
            self.eat(); e = self.expr(); self.eat('op', ')'); return e
        if tk[0] == 'id':
            self.eat(); name = tk[1]
            if self.at('('):
                self.eat(); args = []
                if not self.at(')'):
                    while True:
                        if self.at('&'): self.eat()
                        args.append(self.expr())
                        if self.at(','): self.eat(); continue
                        break
                self.eat('op', ')')
                return self.call(name, args)
            if self.at('->'):
                self.eat(); f = self.eat('id')[1]
                return ('field', name, f)
            if name in ('INT', 'DOUBLE', 'COMPLEX'): return ('num', {'INT': 0, 'DOUBLE': 1, 'COMPLEX': 2}[name])
            return ('var', name)
        raise Untranslatable('expression token %s' % (tk,))
    def call(self, name, args):
        def mname(a):
            if a[0] == 'var': return a[1]
            raise Untranslatable('macro argument ' + str(a))
        if name == 'len': return ('field', mname(args[0]), 'len')
        if name in ('MAT_ID', 'X_ID', 'SP_ID'): return ('field', mname(args[0]), 'id')
        if name in ('MAT_NROWS', 'X_NROWS', 'SP_NROWS'): return ('field', mname(args[0]), 'nrows')
        if name in ('MAT_NCOLS', 'X_NCOLS', 'SP_NCOLS'): return ('field', mname(args[0]), 'ncols')
        if name in ('MAT_LGT',): return ('field', mname(args[0]), 'len')
        if name == 'Matrix_Check': return ('field', mname(args[0]), 'isMat')
        if name == 'SpMatrix_Check': return ('field', mname(args[0]), 'isSp')
        if name == 'abs': return ('abs', args[0])
        if name == 'MAX': return ('max', args[0], args[1])
        if name == 'MIN': return ('min', args[0], args[1])
        return ('opaque', name)
    # statements
    def block(self):
        if self.at('{'):
            self.eat(); out = []
            while not self.at('}'): out += self.stmt()
            self.eat(); return out
        return self.stmt()
    def stmt(self):
        tk = self.peek()
        if tk == ('id', 'if'):
            self.eat(); self.eat('op', '('); c = self.expr(); self.eat('op', ')')
            a = self.block(); b = []
            if self.peek() == ('id', 'else'): self.eat(); b = self.block()
            return [('if', c, a, b)]
        if tk == ('id', 'return'):
            self.eat()
            if self.peek() == ('id', 'NULL'):
                self.eat(); self.eat('op', ';'); return [('reject', '?')]
            # return Py_BuildValue("") / return ...
            depth = 0
            while not (self.at(';') and depth == 0):
                if self.at('('): depth += 1
                if self.at(')'): depth -= 1
                self.eat()
            self.eat(); return [('ret',)]
        if tk[0] == 'id' and tk[1] in self.errs:
            self.eat()
            if self.at('('):
                d = 0
                while True:
                    if self.at('('): d += 1
                    if self.at(')'): d -= 1
                    self.eat()
                    if d == 0: break
            if self.at(';'): self.eat()
            return [('reject', self.errs[tk[1]])]
        if tk == ('id', 'PY_ERR') or tk == ('id', 'PY_ERR_TYPE') or tk == ('id', 'PyErr_SetString'):
            name = self.eat()[1]; self.eat('op', '(')
            cls = 'TypeError'
            d = 1
            while d:
                t = self.eat()
                if t == ('op', '('): d += 1
                if t == ('op', ')'): d -= 1
                if t[0] == 'id' and t[1].startswith('PyExc_'): cls = t[1][6:]
            if self.at(';'): self.eat()
            if name == 'PyErr_SetString': return [('seterr', cls)]
            return [('reject', cls)]
        if tk[0] == 'id' and self.peek(1) == ('op', '.'):
            # a.d = 1.0;  (default value of a scalar argument: not an integer argument, no check)
            while not self.at(';'): self.eat()
            self.eat(); self.skipped.append('scalar default ' + tk[1]); return []
        if tk[0] == 'id' and self.peek(1) == ('op', '='):
            v = self.eat()[1]; self.eat(); e = self.expr(); self.eat('op', ';')
            return [('assign', v, e)]
        if tk == ('id', 'int') and self.peek(1)[0] == 'id' and self.peek(2) == ('op', '='):
            # `int id = MAT_ID(x);` : a declaration with a single initialised integer is an assignment
            save = self.i
            try:
                self.eat(); v = self.eat()[1]; self.eat(); e = self.expr(); self.eat('op', ';')
                return [('assign', v, e)]
            except Untranslatable:
                self.i = save
        if tk[0] == 'id' and tk[1] in ('double', 'int', 'number', 'complex', 'void', 'char', 'int_t', 'matrix', 'PyObject'):
            # a local declaration (possibly with initialiser): no check, no effect on the integer arguments
            d = 0
            while not (self.at(';') and d == 0):
                if self.at('(') or self.at('{'): d += 1
                if self.at(')') or self.at('}'): d -= 1
                self.eat()
            self.eat(); self.skipped.append('decl ' + tk[1])
            return []
        raise Untranslatable('statement starting with %s %s' % (tk, self.peek(1)))

def fix_seterr(stmts):
    """`PyErr_SetString(PyExc_X, ..); return NULL;` -> reject X"""
    out = []
    for s in stmts:
        if s[0] == 'if': s = ('if', s[1], fix_seterr(s[2]), fix_seterr(s[3]))
        if s[0] == 'reject' and s[1] == '?' and out and out[-1][0] == 'seterr':
            cls = out.pop()[1]; out.append(('reject', cls)); continue
        out.append(s)
    return out

def strip_pp(src):
    """remove comments; keep the first branch of #if/#else/#endif"""
    src = re.sub(r'/\*.*?\*/', ' ', src, flags=re.S)
    src = re.sub(r'//[^\n]*', ' ', src)
    out, stack = [], []
    for line in src.split('\n'):
        s = line.strip()
        if s.startswith('#if'): stack.append(True); continue
        if s.startswith('#else'): stack[-1] = False; continue
        if s.startswith('#elif'): stack[-1] = False; continue
        if s.startswith('#endif'): stack.pop(); continue
        if s.startswith('#'): continue
        if all(stack): out.append(line)
    return '\n'.join(out)

def routines(cfile, tolerant=False, end_markers=(), only=None):
    src = strip_pp(open(os.path.join(REPO, 'src', 'C', cfile)).read())
    errs = err_classes()
    res = []
    for m in re.finditer(r'static PyObject\s*\*\s*(\w+)\s*\(PyObject \*self, PyObject \*args,\s*PyObject \*kwrds\)\s*\{', src):
        name = m.group(1)
        # body = up to the matching brace
        i = m.end(); d = 1
        while d:
            c = src[i]
            if c == '{': d += 1
            elif c == '}': d -= 1
            i += 1
        body = src[m.end():i - 1]
        # declarations
        mats = re.findall(r'\b(?:matrix|spmatrix|PyObject)\s*\*\s*([^;]+);', body[:body.find('PyArg_ParseTupleAndKeywords')])
        matnames = []
        for decl in mats:
            for part in decl.split(','):
                nm = part.replace('*', '').split('=')[0].strip()
                if nm: matnames.append(nm)
        ints = {}
        for decl in re.findall(r'\bint\s+([^;]+);', body[:body.find('PyArg_ParseTupleAndKeywords')]):
            for part in decl.split(','):
                if '=' in part:
                    k, v = part.split('='); v = v.strip()
                    if k.strip().startswith('*'): continue           # int *ipivc = NULL: a work-space pointer, not an argument
                    ints[k.strip()] = ord(v[1]) if v.startswith("'") else int(v)
                else: ints[part.strip()] = 0
        chars = {}
        for decl in re.findall(r'\bchar\s+([^;*]+);', body[:body.find('PyArg_ParseTupleAndKeywords')]):
            for part in decl.split(','):
                if '=' in part:
                    k, v = part.split('='); chars[k.strip()] = ord(v.strip()[1])
        kw = re.search(r'kwlist\[\]\s*=\s*\{([^}]*)\}', body)
        kwlist = re.findall(r'"(\w+)"', kw.group(1)) if kw else []
        fm = re.search(r'PyArg_ParseTupleAndKeywords\(args,\s*kwrds,\s*"([^"]*)"', body)
        nreq = len(fm.group(1).split('|')[0]) if fm else 0
        pa = body.find('PyArg_ParseTupleAndKeywords')
        j = body.find('return NULL;', pa) + len('return NULL;')
        if only is not None and name not in only: continue
        end = body.find('switch (', j)
        for mk in end_markers:          # files whose wrappers do not dispatch with a switch: the checks end at the first of these markers
            e2 = body.find(mk, j)
            if e2 >= 0 and (end < 0 or e2 < end): end = e2
        swm = re.match(r'switch \(\s*MAT_ID\((\w+)\)', body[end:]) if end >= 0 else None
        if end < 0: raise Untranslatable('%s: no switch after the checks' % name)
        prefix = body[j:end]
        prefix = re.sub(r'\b(\w+)\s*=\s*(?:\(char\)\s*)?\1_\s*;', '', prefix)      # trans = (char) trans_;  /  trans = trans_;
        toks = lex(prefix)
        p = P(toks, errs)
        stmts = []; cut = None
        while p.peek()[0] != 'eof':
            start = p.i
            if tolerant and toks[start][0] == 'id' and toks[start][1] in ('int', 'double', 'void', 'complex'):
                # `int *ipiv_ptr = malloc(n*sizeof(int));` - a work-space declaration closes the prefix
                j2 = start
                while j2 < len(toks) and toks[j2] != ('op', ';'): j2 += 1
                if any(t == ('id', 'malloc') or t == ('id', 'calloc') for t in toks[start:j2]):
                    cut = ' '.join(str(t[1]) for t in toks[start:start + 12]); break
            try: stmts += p.stmt()
            except Untranslatable:
                # the checks end where the work space is set up: a statement outside the grammar that allocates or copies
                # (`if (!(w = calloc(..))) return PyErr_NoMemory();`, `for (..) ipiv_int[k] = ..`) closes the prefix
                rest = [t[1] for t in toks[start:] if t[0] == 'id']
                if tolerant and any(x in ('malloc', 'calloc', 'for', 'memcpy') for x in rest[:40]):
                    cut = ' '.join(str(t[1]) for t in toks[start:start + 12]); break
                raise
        res.append({'name': name, 'mats': matnames, 'ints': ints, 'chars': chars, 'kwlist': kwlist, 'stmts': fix_seterr(stmts), 'switch': swm.group(1) if swm else None, 'nreq': nreq, 'cut': cut})
    return res

# ------------------------------------------------------------------------------------------------ Lean emission
def collect(stmts, acc):
    def ex(e):
        if e[0] == 'var': acc['vars'].add(e[1])
        elif e[0] == 'field': acc['fields'].add((e[1], e[2]))
        elif e[0] == 'opaque': acc['opaque'].add(e[1])
        elif e[0] in ('num',): pass
        else:
            for a in e[1:]:
                if isinstance(a, tuple): ex(a)
    for s in stmts:
        if s[0] == 'if': ex(s[1]); collect(s[2], acc); collect(s[3], acc)
        elif s[0] == 'assign': acc['assigned'].add(s[1]); ex(s[2])
    return acc

def lean_int(e, env):
    k = e[0]
    if k == 'num': return '(%d : Int)' % e[1]
    if k == 'var': return env.get(e[1], e[1])
    if k == 'field': return '%s_%s' % (e[1], e[2])
    if k == 'neg': return '(-%s)' % lean_int(e[1], env)
    if k == 'abs': return '(iabs %s)' % lean_int(e[1], env)
    if k in ('max', 'min'): return '(%s %s %s)' % (k, lean_int(e[1], env), lean_int(e[2], env))
    if k in ('+', '-', '*'): return '(%s %s %s)' % (lean_int(e[1], env), k, lean_int(e[2], env))
    if k == '/': return '(Int.tdiv %s %s)' % (lean_int(e[1], env), lean_int(e[2], env))
    if k == '%': return '(Int.tmod %s %s)' % (lean_int(e[1], env), lean_int(e[2], env))
    if k == 'cond': return '(if %s then %s else %s)' % (lean_bool(e[1], env), lean_int(e[2], env), lean_int(e[3], env))
    raise Untranslatable('integer expression %s' % (e,))

def is_boolish(e): return e[0] in ('and', 'or', 'not', '==', '!=', '<', '>', '<=', '>=', 'opaque') or (e[0] == 'field' and e[2] in ('isMat', 'isSp'))

def lean_bool(e, env):
    k = e[0]
    if k == 'and': return '(%s ∧ %s)' % (lean_bool(e[1], env), lean_bool(e[2], env))
    if k == 'or': return '(%s ∨ %s)' % (lean_bool(e[1], env), lean_bool(e[2], env))
    if k == 'not': return '(¬ %s)' % lean_bool(e[1], env)
    if k in ('==', '!=', '<', '>', '<=', '>='):
        sym = {'==': '=', '!=': '≠', '<': '<', '>': '>', '<=': '≤', '>=': '≥'}[k]
        return '(%s %s %s)' % (lean_int(e[1], env), sym, lean_int(e[2], env))
    if k == 'opaque': return '(opq_%s = true)' % e[1]
    if k == 'field' and e[2] in ('isMat', 'isSp'): return '(%s_%s = true)' % (e[1], e[2])
    # C truthiness of an integer / pointer
    if k == 'var' and e[1] in env.get('__ptrs__', ()): return '(%s_given = true)' % e[1]
    return '(%s ≠ 0)' % lean_int(e, env)

class Emit:
    """CPS translation of the statement list into a pure Lean expression of type Outcome, together with the proof script that
    peels it (used by the generated safety theorems)."""
    def __init__(self, final_vars, ptrs):
        self.final_vars, self.ptrs, self.cnt = final_vars, ptrs, 0
    def fresh(self, v):
        self.cnt += 1; return '%s_%d' % (v, self.cnt)
    def go(self, stmts, env, ind):
        """returns (lean text, proof lines); env maps C variable -> current Lean name"""
        pad = '  ' * ind
        E = dict(env, __ptrs__=self.ptrs)
        if not stmts:
            return ('.call [' + ', '.join(env.get(v, v) for v in self.final_vars) + ']',
                    [pad + 'exact fin h (by assumption)' if False else pad + 'FINAL'], )
        s, rest = stmts[0], stmts[1:]
        if s[0] == 'reject': return '.reject "%s"' % s[1], [pad + 'cases h']
        if s[0] == 'ret': return '.none', [pad + 'cases h']
        if s[0] == 'seterr': return self.go(rest, env, ind)
        if s[0] == 'assign':
            nv = self.fresh(s[1])
            e = lean_int(s[2], E)
            body, pr = self.go(rest, dict(env, **{s[1]: nv}), ind)
            return ('(withVal %s fun %s =>\n  %s)' % (e, nv, body),
                    [pad + 'rw [withVal_beta] at h', pad + 'generalize h%s : %s = %s at h' % (nv, e, nv), pad + 'try dsimp only at h'] + pr)
        if s[0] == 'if':
            c = lean_bool(s[1], E)
            def only_assign(b): return all(x[0] == 'assign' for x in b)
            if only_assign(s[2]) and only_assign(s[3]) and (s[2] or s[3]):
                names = []
                for x in s[2] + s[3]:
                    if x[1] in names: raise Untranslatable('variable assigned twice in one branch: ' + x[1])
                    names.append(x[1]) if x[1] not in names else None
                if len(set(x[1] for x in s[2])) != len(s[2]) or len(set(x[1] for x in s[3])) != len(s[3]):
                    raise Untranslatable('sequential assignments in a branch')
                text_pre, proof_pre, env2 = '', [], dict(env)
                for v in names:
                    a = [x for x in s[2] if x[1] == v]; b = [x for x in s[3] if x[1] == v]
                    ea = lean_int(a[0][2], E) if a else env.get(v, v)
                    eb = lean_int(b[0][2], E) if b else env.get(v, v)
                    nv = self.fresh(v)
                    e = '(if %s then %s else %s)' % (c, ea, eb)
                    text_pre += '(withVal %s fun %s =>\n  ' % (e, nv)
                    proof_pre += [pad + 'rw [withVal_beta] at h', pad + 'generalize h%s : %s = %s at h' % (nv, e, nv), pad + 'try dsimp only at h']
                    env2[v] = nv
                body, pr = self.go(rest, env2, ind)
                return text_pre + body + ')' * len(names), proof_pre + pr
            # a branch that rejects / returns immediately: peel it
            def immediate(b): return len(b) >= 1 and b[0][0] in ('reject', 'ret')
            if immediate(s[2]) and not s[3]:
                t1, _ = self.go(s[2], env, ind)
                body, pr = self.go(rest, env, ind)
                nm = 'hc%d' % (self.cnt + 1); self.cnt += 1
                lem = 'rej' if s[2][0][0] == 'reject' else 'non'
                return ('(if %s then %s\n  else %s)' % (c, t1, body),
                        [pad + 'have %s := %s_cond h' % (nm, lem), pad + 'replace h := %s_rest h' % lem] + pr)
            t1, p1 = self.go(s[2] + rest, env, ind + 1)
            t2, p2 = self.go(s[3] + rest, env, ind + 1)
            nm = 'hb%d' % (self.cnt + 1); self.cnt += 1
            return ('(if %s then %s\n  else %s)' % (c, t1, t2),
                    [pad + 'by_cases %s : %s' % (nm, c), pad + '· rw [if_pos %s] at h' % nm] + p1 + [pad + '· rw [if_neg %s] at h' % nm] + p2)
        raise Untranslatable('statement %s' % (s,))

def gen_wrap(cfile, ns, modname, pyname, tolerant=False, end_markers=(), only=None):
    """Gen/<modname>.lean: the argument checks of every wrapper of src/C/<cfile> as pure Lean functions (namespace CvxVerif.Gen.<ns>)"""
    rs = routines(cfile, tolerant=tolerant, end_markers=end_markers, only=only)
    out = ['/- GENERATED by tools/translate/cwrap2lean.py from /repo/src/C/%s. Do not edit. -/' % cfile,
           'import CvxVerif.Model.CWrap', 'set_option linter.unusedVariables false', 'set_option maxRecDepth 4000',
           'namespace CvxVerif.Gen.%s' % ns, 'open CvxVerif.CWrap', '']
    table = []
    for r in rs:
        acc = collect(r['stmts'], {'vars': set(), 'fields': set(), 'opaque': set(), 'assigned': set()})
        ptrs = sorted(v for v in acc['vars'] if v in r['mats'])
        params = []
        for (mname, f) in sorted(acc['fields']):
            params.append('(%s_%s : %s)' % (mname, f, 'Bool' if f in ('isMat', 'isSp') else 'Int'))
        ivars = sorted(v for v in acc['vars'] | acc['assigned'] if v not in r['mats'])
        for v in ivars: params.append('(%s : Int)' % v)
        for v in ptrs: params.append('(%s_given : Bool)' % v)
        for o in sorted(acc['opaque']): params.append('(opq_%s : Bool)' % o)
        final_vars = ivars
        em = Emit(final_vars, ptrs)
        body, proof = em.go(r['stmts'], {}, 1)
        r['proof'] = proof
        out.append('/-- argument checks of `%s.%s` (ideal integer arithmetic) -/' % (pyname, r['name']))
        out.append('def %s %s : Outcome :=\n  %s\n' % (r['name'], ' '.join(params), body))
        out.append('def %s_callNames : List String := [%s]\n' % (r['name'], ', '.join('"%s"' % v for v in final_vars)))
        r['params'] = params
        table.append(r)
    out.append('end CvxVerif.Gen.%s\n' % ns)
    os.makedirs(GEN, exist_ok=True)
    p = os.path.join(GEN, modname + '.lean')
    txt = '\n'.join(out)
    if not os.path.exists(p) or open(p).read() != txt: open(p, 'w').write(txt)
    return table

def gen_blas(): return gen_wrap('blas.c', 'Blas', 'BlasWrap', 'blas')
def gen_lapack(): return gen_wrap('lapack.c', 'Lapack', 'LapackWrap', 'lapack', tolerant=True)
def gen_base():
    """the two generic products of base.c that take integer arguments (gemv, symv): the checks end where alpha / beta are converted"""
    return gen_wrap('base.c', 'Base', 'BaseWrap', 'base', tolerant=True, end_markers=('if (ao &&',), only=('base_gemv', 'base_symv'))

def FLAGVAR(fl): return fl

def gen_blas_safety(table=None):
    """Gen/C19Safe.lean: one theorem per routine, `accept -> footprint inside the buffers`, statements from footprints.py"""
    import footprints
    return gen_safety(table or gen_blas(), footprints.FOOT, 'blas', 'Blas', 'BlasWrap', 'footprints.py', 'BLAS', 'C19_safe_', 'C19Safe', '')

def gen_base_safety(table=None):
    """Gen/C19SafeB.lean: dense paths of base.gemv / base.symv, statements from footprints_base.py"""
    import footprints_base
    return gen_safety(table or gen_base(), footprints_base.FOOT, 'base', 'Base', 'BaseWrap', 'footprints_base.py', 'BLAS', 'C19_safe_', 'C19SafeB', 'B')

def gen_lapack_safety(table=None):
    """Gen/C19SafeL.lean: the same for the wrappers of lapack.c, statements from footprints_lapack.py"""
    import footprints_lapack
    return gen_safety(table or gen_lapack(), footprints_lapack.FOOT, 'lapack', 'Lapack', 'LapackWrap', 'footprints_lapack.py', 'LAPACK',
                      'C19_safe_lapack_', 'C19SafeL', 'L')

def gen_safety(table, FOOT, pyname, ns, wrapmod, footfile, LIB, thmprefix, idxmod, suffix):
    out = ['/- GENERATED by tools/translate/cwrap2lean.py (gen_%s_safety): theorem statements from tools/translate/%s (hand-written' % (pyname, footfile),
           '   specification of what each %s routine touches) about the generated argument checks of Gen/%s.lean. -/' % (LIB, wrapmod),
           'import CvxVerif.Gen.%s' % wrapmod, 'set_option linter.unusedVariables false', 'set_option linter.unusedSimpArgs false', 'set_option maxRecDepth 8000',
           'namespace CvxVerif.C19', 'open CvxVerif.CWrap CvxVerif.Gen CvxVerif.Gen.%s' % ns, '']
    unproved = []
    for r in table:
        name = r['name']
        if name not in FOOT: unproved.append(name); continue
        import re as _re
        pnames = [_re.match(r'\((\w+) :', p).group(1) for p in r['params']]
        ivars = [v for v in pnames if ('(%s : Int)' % v) in r['params'] and not _re.search(r'_(id|len|nrows|ncols)$', v)]
        primed = ' '.join(v + "'" for v in ivars)
        stmt = ' ∧\n    '.join('(%s)' % f for f in FOOT[name])
        out.append('/-- **Memory safety of `%s.%s` in ideal arithmetic.** Whenever the argument checks let the call through, every element the' % (pyname, name))
        out.append('%s routine addresses lies inside the Python buffers, for all integer arguments and all buffer sizes. -/' % LIB)
        out.append('theorem %s%s %s (%s : Int)' % (thmprefix, name, ' '.join(r['params']), primed))
        out.append('    (h : %s.%s %s = .call [%s])' % (ns, name, ' '.join(pnames), ', '.join(v + "'" for v in ivars)))
        sw = r.get('switch')
        if sw and ('(%s_id : Int)' % sw) in r['params']:
            out.append("    -- the `switch (MAT_ID(%s))` that follows the checks rejects every typecode other than 'd' (1) and 'z' (2)" % sw)
            out.append('    (hsw : %s_id = 1 ∨ %s_id = 2) :' % (sw, sw))
        else: out[-1] += ' :'
        out.append('    %s := by' % stmt)
        out.append('  unfold %s.%s at h' % (ns, name))
        flags = sorted(set(_re.findall(r"if (\w+)' = (\d+)", stmt)))
        final = ['simp only [Outcome.call.injEq, List.cons.injEq, and_true] at h',
                 'obtain ⟨%s⟩ := h' % ', '.join('rfl' for _ in ivars) if len(ivars) > 1 else 'subst h',
                 'simp only [VecFits, MatFits, SegFits, MatIn]']
        incs = sorted(set(_re.findall(r"VecFits \w+ \w+' \(.*?\) (\w+)'", stmt)))
        for v in incs:
            final.append('have hi_%s := iabs_cases %s' % (v, v))
        final.append('grind (splits := 60)')
        for l in r['proof']:
            if l.strip() == 'FINAL':
                pad = l[:len(l) - len(l.lstrip())]
                out += [pad + f for f in final]
            else: out.append(l)
        out.append('')
    # one file per routine (parallel build) + an index module
    header = out[:9]
    body = out[9:]
    blocks, cur = [], []
    for l in body:
        cur.append(l)
        if l == '' and cur and any(x.startswith('theorem ' + thmprefix) for x in cur):
            blocks.append(cur); cur = []
    names = []
    for blk in blocks:
        nm = [x for x in blk if x.startswith('theorem ' + thmprefix)][0].split(' ')[1][len(thmprefix):]
        names.append(nm)
        txt = '\n'.join(header + blk + ['end CvxVerif.C19', ''])
        p = os.path.join(GEN, '%s_%s.lean' % (idxmod, nm))
        if not os.path.exists(p) or open(p).read() != txt: open(p, 'w').write(txt)
    idx = ['/- GENERATED index of the per-routine safety theorems -/'] + ['import CvxVerif.Gen.%s_%s' % (idxmod, n) for n in names] + [
           'namespace CvxVerif.C19',
           '/-- routines of %s.c without a safety theorem (none expected) -/' % pyname,
           'def unproved%s : List String := [%s]' % (suffix, ', '.join('"%s"' % u for u in unproved)),
           'def proved%s : List String := [%s]' % (suffix, ', '.join('"%s"' % u for u in names)),
           'theorem C19_all_%s_routines_covered : unproved%s = [] ∧ proved%s.length = %d := by decide' % (pyname, suffix, suffix, len(names)),
           'end CvxVerif.C19', '']
    p = os.path.join(GEN, idxmod + '.lean')
    txt = '\n'.join(idx)
    if not os.path.exists(p) or open(p).read() != txt: open(p, 'w').write(txt)
    return table

def gen_driver(table, ns, wrapmod, drvmod, fn, cn, drvfile):
    """Gen/<drvmod>.lean: dispatch by routine name for the correspondence driver"""
    out = ['/- GENERATED by tools/translate/cwrap2lean.py: dispatch table for Drivers/%s.lean -/' % drvfile, 'import CvxVerif.Gen.%s' % wrapmod,
           'namespace CvxVerif.Gen.%s' % ns, 'open CvxVerif.CWrap', '',
           'def %s (name : String) (kv : String → Int) (kb : String → Bool) : Option Outcome :=' % fn]
    for r in table:
        args = []
        for prm in r['params']:
            m = re.match(r'\((\w+) : (\w+)\)', prm)
            args.append('(%s "%s")' % ('kv' if m.group(2) == 'Int' else 'kb', m.group(1)))
        out.append('  if name == "%s" then some (%s %s) else' % (r['name'], r['name'], ' '.join(args)))
    out.append('  none')
    out.append('')
    out.append('def %s (name : String) : List String :=' % cn)
    for r in table:
        out.append('  if name == "%s" then %s_callNames else' % (r['name'], r['name']))
    out.append('  []')
    out.append('end CvxVerif.Gen.%s\n' % ns)
    p = os.path.join(GEN, drvmod + '.lean'); txt = '\n'.join(out)
    if not os.path.exists(p) or open(p).read() != txt: open(p, 'w').write(txt)

def gen_foot(table, FOOT, ns, wrapmod, footmod, fn):
    """Gen/<footmod>.lean: the footprint specification of every routine as an executable Boolean (used by the search for a failing input when a
    safety theorem no longer checks): kv / kb give the arguments of the call, gv the final values the checks pass on"""
    def conv(stmt):
        stmt = re.sub(r"\b([A-Za-z_]\w*)'", r'(gv "\1")', stmt)
        stmt = re.sub(r'(?<!")\b(\w+_(?:len|id|nrows|ncols))\b(?!")', r'(kv "\1")', stmt)
        stmt = re.sub(r'(?<!")\b(\w+_(?:isMat|given))\b(?!")', r'(kb "\1")', stmt)
        return stmt
    out = ['/- GENERATED by tools/translate/cwrap2lean.py (gen_foot): the footprint specifications as executable Booleans. Do not edit. -/',
           'import CvxVerif.Gen.%s' % wrapmod, 'set_option linter.unusedVariables false', 'namespace CvxVerif.Gen.%s' % ns, 'open CvxVerif.CWrap', '',
           'def %s (name : String) (kv : String → Int) (kb : String → Bool) (gv : String → Int) : Option Bool :=' % fn]
    for r in table:
        if r['name'] not in FOOT: continue
        stmt = ' ∧ '.join('(%s)' % conv(f) for f in FOOT[r['name']])
        out.append('  if name == "%s" then some (decide (%s)) else' % (r['name'], stmt))
    out += ['  none', 'end CvxVerif.Gen.%s' % ns, '']
    p = os.path.join(GEN, footmod + '.lean'); txt = '\n'.join(out)
    if not os.path.exists(p) or open(p).read() != txt: open(p, 'w').write(txt)

def gen_blas_foot(table):
    import footprints
    gen_foot(table, footprints.FOOT, 'Blas', 'BlasWrap', 'BlasFoot', 'footBlas')
def gen_lapack_foot(table):
    import footprints_lapack
    gen_foot(table, footprints_lapack.FOOT, 'Lapack', 'LapackWrap', 'LapackFoot', 'footLapack')

def gen_blas_driver(table): gen_driver(table, 'Blas', 'BlasWrap', 'BlasDriver', 'runBlas', 'callNames', 'C19')
def gen_lapack_driver(table): gen_driver(table, 'Lapack', 'LapackWrap', 'LapackDriver', 'runLapack', 'callNamesL', 'C19L')
def gen_base_driver(table): gen_driver(table, 'Base', 'BaseWrap', 'BaseDriver', 'runBase', 'callNamesB', 'C19L')

# ------------------------------------------------------------------------------------------------ evaluation (Python side)
def wrap32(x):
    x &= 0xFFFFFFFF
    return x - (1 << 32) if x & 0x80000000 else x

def eval_stmts(stmts, env, cint):
    """evaluates the parsed prefix on concrete values.  env: C variable -> int, plus (matrix, field) tuples -> int/bool,
    plus ('opaque', name) -> bool.  cint=True: 32-bit wrap-around arithmetic (models gcc's behaviour on overflow);
    cint=False: ideal integers.  Returns ('reject', cls) | ('none',) | ('call', env)"""
    W = wrap32 if cint else (lambda x: x)
    def ev(e):
        k = e[0]
        if k == 'num': return e[1]
        if k == 'var': return env[e[1]]
        if k == 'field': return env[(e[1], e[2])]
        if k == 'opaque': return env.get(('opaque', e[1]), False)
        if k == 'neg': return W(-ev(e[1]))
        if k == 'abs': return W(abs(ev(e[1])))
        if k == 'max': return max(ev(e[1]), ev(e[2]))
        if k == 'min': return min(ev(e[1]), ev(e[2]))
        if k == '+': return W(ev(e[1]) + ev(e[2]))
        if k == '-': return W(ev(e[1]) - ev(e[2]))
        if k == '*': return W(ev(e[1]) * ev(e[2]))
        if k == '/':
            a, b = ev(e[1]), ev(e[2])
            if b == 0: raise ZeroDivisionError
            q = abs(a) // abs(b); return W(q if (a >= 0) == (b >= 0) else -q)
        if k == '%':
            a, b = ev(e[1]), ev(e[2]); q = abs(a) // abs(b); q = q if (a >= 0) == (b >= 0) else -q
            return W(a - q * b)
        if k == 'cond': return ev(e[2]) if truth(e[1]) else ev(e[3])
        if k in ('and', 'or', 'not', '==', '!=', '<', '>', '<=', '>='): return 1 if truth(e) else 0
        raise Untranslatable(str(e))
    def truth(e):
        k = e[0]
        if k == 'and': return truth(e[1]) and truth(e[2])
        if k == 'or': return truth(e[1]) or truth(e[2])
        if k == 'not': return not truth(e[1])
        if k == '==': return ev(e[1]) == ev(e[2])
        if k == '!=': return ev(e[1]) != ev(e[2])
        if k == '<': return ev(e[1]) < ev(e[2])
        if k == '>': return ev(e[1]) > ev(e[2])
        if k == '<=': return ev(e[1]) <= ev(e[2])
        if k == '>=': return ev(e[1]) >= ev(e[2])
        v = ev(e)
        return bool(v)
    def run(ss):
        for s in ss:
            if s[0] == 'reject': return ('reject', s[1])
            if s[0] == 'ret': return ('none',)
            if s[0] == 'assign': env[s[1]] = ev(s[2])
            if s[0] == 'if':
                r = run(s[2] if truth(s[1]) else s[3])
                if r is not None: return r
        return None
    r = run(stmts)
    return r if r is not None else ('call', env)

if __name__ == '__main__':
    sys.path.insert(0, HERE)
    t = gen_blas_safety()
    gen_blas_driver(t)
    tl = gen_lapack_safety()
    gen_lapack_driver(tl)
    gen_blas_foot(t); gen_lapack_foot(tl)
    gen_base_driver(gen_base_safety())
    print('generated', len(t), '+', len(tl), 'routines')
