import CvxVerif.Model.Dense
import Mathlib.Tactic.Ring
import Mathlib.Tactic.FieldSimp
import Mathlib.Tactic.Linarith
import Mathlib.Algebra.Order.Field.Basic

/-! C15 (continued) — division, remainder, absolute value, the builtins over the entries and the elementwise functions of the
column-major model `Model/Dense.lean` (`matrix_div_generic`, `matrix_rem_generic`, `matrix_abs`, `base.emul/ediv/emax/emin`). -/
namespace CvxVerif.Dense

/-- `Num` is a field where it matters: dividing by a non-zero scalar and multiplying back gives the entry -/
theorem Num.div_mul_cancel (a v : Num) (hv : v.isZero = false) : (a.div v).mul v = a := by
  have hn : v.re * v.re + v.im * v.im ≠ 0 := by
    intro h
    have h1 : v.re * v.re ≥ 0 := mul_self_nonneg _
    have h2 : v.im * v.im ≥ 0 := mul_self_nonneg _
    have hr : v.re * v.re = 0 := by linarith
    have hi : v.im * v.im = 0 := by linarith
    have hr' : v.re = 0 := by simpa using hr
    have hi' : v.im = 0 := by simpa using hi
    simp [Num.isZero, hr', hi'] at hv
  cases a with
  | mk ar ai =>
    cases v with
    | mk vr vi =>
      simp only [Num.div, Num.mul, Num.inv] at hn ⊢
      have hn2 : vr ^ 2 + vi ^ 2 ≠ 0 := by rw [pow_two, pow_two]; exact hn
      have hn3 : vi ^ 2 + vr ^ 2 ≠ 0 := by rw [add_comm]; exact hn2
      simp only [Num.mk.injEq]
      constructor <;> (field_simp; ring)

theorem TC.one_le_ofId (n : Nat) (h : 1 ≤ n) : 1 ≤ (TC.ofId n).id := by
  unfold TC.ofId
  split
  · rename_i h0; simp at h0; omega
  · split <;> simp [TC.id]

/-- **True division.** `A / y` with a scalar divisor (number or 1×1 matrix) keeps the shape, has type at least 'd', divides every
entry, and multiplying the quotient by the divisor gives `A` back entry by entry; a zero divisor is a ZeroDivisionError, a
non-scalar divisor a TypeError. -/
theorem C15_div (A : Mat) (y : Opd) :
    (y.isScalar = false → divop (.mat A) y = .error .type) ∧
    (y.isScalar = true → y.scalarVal.isZero = true → divop (.mat A) y = .error .zeroDiv) ∧
    (y.isScalar = true → y.scalarVal.isZero = false →
      ∃ R, divop (.mat A) y = .ok R ∧ R.nrows = A.nrows ∧ R.ncols = A.ncols ∧ 1 ≤ R.tc.id ∧ R.buf.length = A.buf.length ∧
        R.buf.map (fun r => r.mul y.scalarVal) = A.buf) := by
  refine ⟨fun h => by simp [divop, h], fun h hz => by simp [divop, h, hz], fun h hz => ?_⟩
  refine ⟨⟨A.nrows, A.ncols, TC.ofId (max 1 (max (Opd.mat A).id y.id)), A.buf.map fun a => a.div y.scalarVal⟩,
    by simp [divop, h, hz], rfl, rfl, TC.one_le_ofId _ (by omega), by simp, ?_⟩
  simp only [List.map_map]
  conv => rhs; rw [← List.map_id A.buf]
  apply List.map_congr_left
  intro a _
  exact Num.div_mul_cancel a _ hz

/-- **In-place division never changes the type**: it is refused (TypeError) for every 'i' matrix and whenever the divisor has a
higher type; otherwise the same object keeps its shape and type. -/
theorem C15_idiv (A : Mat) (y : Opd) (R : Mat) (h : idivop A y = .ok R) :
    R.tc = A.tc ∧ A.tc ≠ .i ∧ y.id ≤ A.tc.id ∧ R.nrows = A.nrows ∧ R.ncols = A.ncols ∧ R.buf.length = A.buf.length := by
  unfold idivop at h
  split at h; · cases h
  split at h; · cases h
  split at h; · cases h
  rename_i h1 h2 h3
  injection h with h; subst h
  have hid : max 1 (max A.tc.id y.id) = A.tc.id := by simpa using h2
  refine ⟨rfl, ?_, by omega, rfl, rfl, by simp⟩
  intro hi; rw [hi] at hid; simp [TC.id] at hid

/-- **Integer remainder** is the C one: `a = n * (a / n) + r` with truncating division, so `|r| < |n|` and `r` has the sign of `a`. -/
theorem C15_irem_num (a n : Int) (hn : n ≠ 0) :
    let r := (iremNum ⟨a, 0⟩ ⟨n, 0⟩).re
    r = (Int.tmod a n : Int) ∧ (0 ≤ a → 0 ≤ Int.tmod a n) ∧ (a ≤ 0 → Int.tmod a n ≤ 0) ∧ (Int.tmod a n).natAbs < n.natAbs := by
  refine ⟨by simp [iremNum], fun h => Int.tmod_nonneg n h, fun h => ?_, ?_⟩
  · have := Int.tmod_nonneg n (Int.neg_nonneg.mpr h)
    rw [Int.neg_tmod] at this; omega
  · rw [Int.natAbs_tmod]
    exact Nat.mod_lt _ (by omega)

/-- **Floating remainder** `a - floor(a/n)*n` lies in `[0, n)` for a positive divisor and in `(n, 0]` for a negative one. -/
theorem C15_drem_num (a n : Rat) :
    let r := (dremNum ⟨a, 0⟩ ⟨n, 0⟩).re
    (0 < n → 0 ≤ r ∧ r < n) ∧ (n < 0 → n < r ∧ r ≤ 0) := by
  simp only [dremNum]
  have hf1 : ((a / n).floor : Rat) ≤ a / n := Rat.floor_le _
  have hf2 : a / n < ((a / n).floor : Rat) + 1 := by
    have := Rat.lt_floor_add_one (a / n); push_cast at this; exact this
  constructor
  · intro hn
    have e : a = (a / n) * n := by field_simp
    constructor
    · have : ((a / n).floor : Rat) * n ≤ (a / n) * n := mul_le_mul_of_nonneg_right hf1 hn.le
      linarith
    · have : (a / n) * n < (((a / n).floor : Rat) + 1) * n := mul_lt_mul_of_pos_right hf2 hn
      linarith
  · intro hn
    have hn0 : n ≠ 0 := ne_of_lt hn
    have e : a = (a / n) * n := by field_simp
    constructor
    · have : (((a / n).floor : Rat) + 1) * n < (a / n) * n := mul_lt_mul_of_neg_right hf2 hn
      linarith
    · have : (a / n) * n ≤ ((a / n).floor : Rat) * n := mul_le_mul_of_nonpos_right hf1 hn.le
      linarith

/-- `%` and `%=` refuse complex operands (NotImplementedError) and, in place, any change of type (TypeError) -/
theorem C15_rem_refusals (A : Mat) (y : Opd) (hs : y.isScalar = true) :
    (max A.tc.id y.id = 2 → remop (.mat A) y = .error .notImpl ∧ iremop A y = .error .notImpl) ∧
    (max A.tc.id y.id ≠ 2 → A.tc.id < y.id → iremop A y = .error .type) := by
  have hx : (Opd.mat A).id = A.tc.id := rfl
  constructor
  · intro h; simp [remop, iremop, hs, hx, h]
  · intro h2 hlt
    have : max A.tc.id y.id ≠ A.tc.id := by omega
    simp [iremop, hs, h2, this]

/-- **abs** keeps the shape, returns type 'd' for complex matrices and the same type otherwise, has non-negative entries, and is
idempotent on real matrices -/
theorem C15_abs_real (A : Mat) (h : A.tc ≠ .z) :
    ∃ R, absop A = some R ∧ R.tc = A.tc ∧ R.nrows = A.nrows ∧ R.ncols = A.ncols ∧ (∀ r ∈ R.buf, 0 ≤ r.re ∧ r.im = 0) ∧ absop R = some R := by
  refine ⟨{ A with buf := A.buf.map fun a => ⟨ratAbs a.re, 0⟩ }, by simp [absop, h], rfl, rfl, rfl, ?_, ?_⟩
  · intro r hr
    simp only [List.mem_map] at hr
    obtain ⟨a, _, rfl⟩ := hr
    refine ⟨?_, rfl⟩
    simp only [ratAbs]; split <;> linarith
  · simp only [absop, h, if_false, List.map_map]
    congr 2
    apply List.map_congr_left
    intro a _
    simp only [Function.comp, ratAbs]
    by_cases h1 : a.re < 0
    · have h2 : ¬ (-a.re < 0) := by linarith
      simp [h1, h2]
    · simp [h1]

theorem length_of_mapM_some {α β : Type} (f : α → Option β) : ∀ (l : List α) (l' : List β), l.mapM f = some l' → l'.length = l.length := by
  intro l
  induction l with
  | nil => intro l' h; simp at h; subst h; rfl
  | cons a t ih =>
    intro l' h
    simp only [List.mapM_cons] at h
    cases hfa : f a with
    | none => simp [hfa] at h
    | some b =>
      cases ht : t.mapM f with
      | none => simp [hfa, ht] at h
      | some t' =>
        simp [hfa, ht] at h
        subst h
        simp [ih t' ht]

theorem C15_abs_complex (A R : Mat) (h : A.tc = .z) (hr : absop A = some R) :
    R.tc = .d ∧ R.nrows = A.nrows ∧ R.ncols = A.ncols ∧ R.buf.length = A.buf.length := by
  simp only [absop, h, if_true, Option.map_eq_some_iff] at hr
  obtain ⟨l, hl, rfl⟩ := hr
  refine ⟨rfl, rfl, rfl, ?_⟩
  simp only [List.length_map]
  exact length_of_mapM_some _ _ _ hl

/-! ### builtins over the entries and the elementwise functions -/

theorem foldl_pick_mem (p : Num → Num → Bool) : ∀ (l : List Num) (a : Num),
    l.foldl (fun m b => if p b m then b else m) a = a ∨ l.foldl (fun m b => if p b m then b else m) a ∈ l := by
  intro l
  induction l with
  | nil => intro a; left; rfl
  | cons b t ih =>
    intro a
    simp only [List.foldl_cons]
    rcases ih (if p b a then b else a) with h | h
    · rw [h]; split
      · right; exact List.mem_cons_self
      · left; rfl
    · right; exact List.mem_cons_of_mem _ h

theorem foldl_max_bound : ∀ (l : List Num) (a : Num), ∀ x ∈ a :: l,
    x.re ≤ (l.foldl (fun m b => if decide (b.re > m.re) then b else m) a).re := by
  intro l
  induction l with
  | nil => intro a x hx; simp at hx; subst hx; exact le_refl _
  | cons b t ih =>
    intro a x hx
    simp only [List.foldl_cons]
    have hstart := ih (if decide (b.re > a.re) then b else a) _ List.mem_cons_self
    have ha : a.re ≤ (if decide (b.re > a.re) then b else a).re := by
      split
      · rename_i hc; simp at hc; linarith
      · exact le_refl _
    have hb : b.re ≤ (if decide (b.re > a.re) then b else a).re := by
      split
      · exact le_refl _
      · rename_i hc; simp at hc; exact hc
    have hx' : x = a ∨ x = b ∨ x ∈ t := by simpa using hx
    rcases hx' with rfl | rfl | hxt
    · exact le_trans ha hstart
    · exact le_trans hb hstart
    · exact ih _ x (List.mem_cons_of_mem _ hxt)

theorem foldl_min_bound : ∀ (l : List Num) (a : Num), ∀ x ∈ a :: l,
    (l.foldl (fun m b => if decide (b.re < m.re) then b else m) a).re ≤ x.re := by
  intro l
  induction l with
  | nil => intro a x hx; simp at hx; subst hx; exact le_refl _
  | cons b t ih =>
    intro a x hx
    simp only [List.foldl_cons]
    have hstart := ih (if decide (b.re < a.re) then b else a) _ List.mem_cons_self
    have ha : (if decide (b.re < a.re) then b else a).re ≤ a.re := by
      split
      · rename_i hc; simp at hc; linarith
      · exact le_refl _
    have hb : (if decide (b.re < a.re) then b else a).re ≤ b.re := by
      split
      · exact le_refl _
      · rename_i hc; simp at hc; exact hc
    have hx' : x = a ∨ x = b ∨ x ∈ t := by simpa using hx
    rcases hx' with rfl | rfl | hxt
    · exact le_trans hstart ha
    · exact le_trans hstart hb
    · exact ih _ x (List.mem_cons_of_mem _ hxt)

/-- **max(A) / min(A)** (the builtins, iterating over the entries): for a non-empty real matrix the result is an entry of `A`, typed
like `A`, that bounds every entry; an empty matrix is a ValueError, a complex matrix with more than one entry a TypeError. -/
theorem C15_builtin_extreme (isMax : Bool) (A : Mat) :
    (A.buf = [] → bextreme isMax A = .err .value) ∧
    (A.tc ≠ .z → A.buf ≠ [] → ∃ m, bextreme isMax A = .num A.tc m ∧ m ∈ A.buf ∧
      ∀ x ∈ A.buf, if isMax then x.re ≤ m.re else m.re ≤ x.re) ∧
    (A.tc = .z → 2 ≤ A.buf.length → bextreme isMax A = .err .type) := by
  refine ⟨fun h => by simp [bextreme, h], fun hz hne => ?_, fun hz hl => ?_⟩
  · cases hb : A.buf with
    | nil => exact absurd hb hne
    | cons a rest =>
      cases isMax with
      | true =>
        refine ⟨rest.foldl (fun m b => if decide (b.re > m.re) then b else m) a, by simp [bextreme, hb, hz], ?_, ?_⟩
        · rcases foldl_pick_mem (fun b m => decide (b.re > m.re)) rest a with h | h
          · rw [h]; exact List.mem_cons_self
          · exact List.mem_cons_of_mem _ h
        · intro x hx; simp only [if_true]; exact foldl_max_bound rest a x hx
      | false =>
        refine ⟨rest.foldl (fun m b => if decide (b.re < m.re) then b else m) a, by simp [bextreme, hb, hz], ?_, ?_⟩
        · rcases foldl_pick_mem (fun b m => decide (b.re < m.re)) rest a with h | h
          · rw [h]; exact List.mem_cons_self
          · exact List.mem_cons_of_mem _ h
        · intro x hx; simp only [Bool.false_eq_true, if_false]; exact foldl_min_bound rest a x hx
  · cases hb : A.buf with
    | nil => rw [hb] at hl; simp at hl
    | cons a rest =>
      cases rest with
      | nil => rw [hb] at hl; simp at hl
      | cons b t => simp [bextreme, hb, hz]

/-- **sum(A)** starts from the Python integer 0: the sum of an empty matrix is the `int` 0 whatever the typecode -/
theorem C15_builtin_sum (A : Mat) :
    (A.buf = [] → bsum A = .num .i Num.zero) ∧ (A.buf ≠ [] → bsum A = .num A.tc (A.buf.foldl Num.add Num.zero)) := by
  constructor
  · intro h; simp [bsum, h]
  · intro h; simp [bsum, h]

/-- **Elementwise functions on two matrices of equal shape** (neither with exactly one entry): the result has that shape, type
`max` of the operand types (at least 'd' for `div`), entry `k` is `f(A[k], B[k])`; ordering functions refuse complex operands and
division refuses any zero divisor entry (ArithmeticError). -/
theorem C15_elem_matrices (op : ElemOp) (A B : Mat) (hA : A.lgt ≠ 1) (hB : B.lgt ≠ 1) :
    let id0 := max A.tc.id B.tc.id
    ((op = .max ∨ op = .min) → id0 = 2 → elem op (.mat A) (.mat B) = .err .type) ∧
    (¬((op = .max ∨ op = .min) ∧ id0 = 2) →
      ((A.nrows ≠ B.nrows ∨ A.ncols ≠ B.ncols) → elem op (.mat A) (.mat B) = .err .type) ∧
      (A.nrows = B.nrows → A.ncols = B.ncols →
        (op = .div → B.buf.any Num.isZero = true → elem op (.mat A) (.mat B) = .err .arith) ∧
        (¬(op = .div ∧ B.buf.any Num.isZero = true) →
          elem op (.mat A) (.mat B) = .mat ⟨A.nrows, A.ncols, TC.ofId (if op = .div then max 1 id0 else id0), List.zipWith (elemFn op) A.buf B.buf⟩))) := by
  intro id0
  have hxs : (Opd.mat A).isScalar = false := by simp [Opd.isScalar, hA]
  have hys : (Opd.mat B).isScalar = false := by simp [Opd.isScalar, hB]
  have hx : (Opd.mat A).id = A.tc.id := rfl
  have hy : (Opd.mat B).id = B.tc.id := rfl
  refine ⟨fun ho hi => ?_, fun hno => ⟨fun hd => ?_, fun hr hc => ⟨fun hdv hz => ?_, fun hnz => ?_⟩⟩⟩
  · unfold elem; simp only [hx, hy]
    rcases ho with rfl | rfl <;> simp [id0] at hi <;> simp [hi]
  all_goals
    have hguard : ((op == .max || op == .min) && max A.tc.id B.tc.id == 2) = false := by
      cases op <;> simp_all [id0]
  · unfold elem; simp only [hx, hy, hguard, hxs, hys]
    rcases hd with hd | hd <;> simp [Opd.isMat, hd]
  · subst hdv
    unfold elem; simp only [hx, hy, hguard, hxs, hys]
    simp [Opd.isMat, hr, hc, hz]
  · unfold elem; simp only [hx, hy, hguard, hxs, hys]
    by_cases hdv : op = .div
    · subst hdv
      have : B.buf.any Num.isZero = false := by simpa using hnz
      simp [Opd.isMat, hr, hc, this]; rfl
    · cases op <;> simp_all [Opd.isMat] <;> rfl

/-- `max` / `min` of two real entries is one of them and bounds both; `mul` is commutative -/
theorem C15_elemFn (a b : Num) :
    ((elemFn .max a b = a ∨ elemFn .max a b = b) ∧ a.re ≤ (elemFn .max a b).re ∧ b.re ≤ (elemFn .max a b).re) ∧
    ((elemFn .min a b = a ∨ elemFn .min a b = b) ∧ (elemFn .min a b).re ≤ a.re ∧ (elemFn .min a b).re ≤ b.re) ∧
    elemFn .mul a b = elemFn .mul b a := by
  refine ⟨?_, ?_, ?_⟩
  · simp only [elemFn]; split
    · exact ⟨Or.inl rfl, le_refl _, by assumption⟩
    · rename_i h; exact ⟨Or.inr rfl, by linarith [not_le.mp h], le_refl _⟩
  · simp only [elemFn]; split
    · exact ⟨Or.inl rfl, le_refl _, by assumption⟩
    · rename_i h; exact ⟨Or.inr rfl, by linarith [not_le.mp h], le_refl _⟩
  · simp only [elemFn, Num.mul, Num.mk.injEq]; constructor <;> ring

/-- a list of columns: equal lengths are required, the columns are laid out one after the other, and stacking empty columns gives 0×0 -/
theorem C15_from_columns (cols : List (List Num)) (ids : List Nat) (c : List Num) (rest : List (List Num)) (h : cols = c :: rest)
    (hid : ids.foldl max 0 = 0) :
    ((∃ r ∈ rest, r.length ≠ c.length) → fromCols cols ids none = .error .type) ∧
    ((∀ r ∈ rest, r.length = c.length) → c ≠ [] →
      fromCols cols ids none = .ok ⟨c.length, cols.length, .i, cols.flatten⟩) := by
  subst h
  constructor
  · rintro ⟨r, hr, hne⟩
    have : rest.any (fun r => r.length != c.length) = true := by
      simp only [List.any_eq_true]; exact ⟨r, hr, by simpa using hne⟩
    simp [fromCols, hid, TC.ofId, TC.id, this]
  · intro hall hc
    have : rest.any (fun r => r.length != c.length) = false := by
      simp only [List.any_eq_false]; intro r hr; simpa using hall r hr
    have hc' : (c.length == 0) = false := by cases c <;> simp_all
    simp [fromCols, hid, TC.ofId, TC.id, this, hc']

end CvxVerif.Dense

namespace CvxVerif.Dense
/-! non-vacuity: concrete instances of the hypotheses above -/
example : divop (.mat ⟨2, 1, .i, [⟨3, 0⟩, ⟨-7, 0⟩]⟩) (.num 0 ⟨2, 0⟩) = .ok ⟨2, 1, .d, [⟨3 / 2, 0⟩, ⟨-7 / 2, 0⟩]⟩ := by decide +kernel
example : idivop ⟨1, 1, .i, [⟨3, 0⟩]⟩ (.num 0 ⟨2, 0⟩) = .error .type := by decide +kernel
example : remop (.mat ⟨2, 1, .i, [⟨7, 0⟩, ⟨-7, 0⟩]⟩) (.num 0 ⟨3, 0⟩) = .ok ⟨2, 1, .i, [⟨1, 0⟩, ⟨-1, 0⟩]⟩ := by decide +kernel
example : remop (.mat ⟨2, 1, .d, [⟨15 / 2, 0⟩, ⟨-15 / 2, 0⟩]⟩) (.num 0 ⟨2, 0⟩) = .ok ⟨2, 1, .d, [⟨3 / 2, 0⟩, ⟨1 / 2, 0⟩]⟩ := by decide +kernel
example : bextreme true ⟨3, 1, .d, [⟨1, 0⟩, ⟨5 / 2, 0⟩, ⟨-1, 0⟩]⟩ = .num .d ⟨5 / 2, 0⟩ := by decide +kernel
example : elem .div (.mat ⟨2, 1, .i, [⟨1, 0⟩, ⟨2, 0⟩]⟩) (.mat ⟨2, 1, .i, [⟨2, 0⟩, ⟨0, 0⟩]⟩) = .err .arith := by decide +kernel
example : elem .div (.mat ⟨2, 1, .i, [⟨1, 0⟩, ⟨2, 0⟩]⟩) (.mat ⟨2, 1, .i, [⟨2, 0⟩, ⟨4, 0⟩]⟩) = .mat ⟨2, 1, .d, [⟨1 / 2, 0⟩, ⟨1 / 2, 0⟩]⟩ := by decide +kernel
end CvxVerif.Dense
