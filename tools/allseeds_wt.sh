#!/bin/bash
# regression of every stored seed without touching /repo: patch applied in a scratch worktree, own quick check with VERIF_REPO
cd /verif
for d in seeded/C*; do
  sid=$(basename $d); prop=${sid%%-*}
  wt=/tmp/wt_reg_$sid
  git -C /repo worktree add -f $wt HEAD -q 2>/dev/null
  if ! git -C $wt apply /verif/$d/patch.diff 2>/dev/null; then echo "$sid PATCH-DOES-NOT-APPLY"; git -C /repo worktree remove --force $wt; continue; fi
  n=$(VERIF_REPO=$wt VERIF_NO_ESCALATE=1 VERIF_LEANCHECKER=0 ./check $prop --tier quick 2>&1 | grep -c "^VIOLATION")
  echo "$sid quick_violations=$n"
  git -C /repo worktree remove --force $wt
done
