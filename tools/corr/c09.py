"""C09: option handling generated from the source (Gen/Options.lean) vs the real entry points; purity,
history independence and thread runs on the real code."""
import os, sys, json, random, pickle, threading, math, fractions, io, contextlib, copy
import vlib
sys.path.insert(0, os.path.join(vlib.VERIF, 'tools', 'translate'))

LEAN_TARGETS = ['CvxVerif.Props.C09']
MODEL_FILES = ['CvxVerif.Model.PyVal', 'CvxVerif.Model.OptFlow', 'CvxVerif.Proofs.PyVal', 'CvxVerif.Gen.Options']
LEVEL = 'proof'
TRUSTED = ['translator tools/translate/py2lean.py gen_options (option statements, options= flow, loop range) and the fixed '
           'Lean semantics of its target combinators (Model/PyVal.lean, Model/OptFlow.lean); each generated parser is also '
           'executed against the real entry point on generated option dictionaries']
ASSUMPTIONS = ['thread interleavings inside BLAS calls are observed (thread runs), not modelled',
               'purity of a call is established by byte images (pickle) of arguments, option dictionaries and module globals']
EPS = ['conelp', 'coneqp', 'lp', 'qp', 'socp', 'sdp', 'cpl', 'cp', 'gp', 'op.solve']

def translate(ctx):
    import py2lean
    try:
        py2lean.gen_options()
    except Exception as e:
        return ['py2lean.gen_options: %s: %s' % (type(e).__name__, e)]
    return []

# ---------------------------------------------------------------- option values
VALUES = [None, True, False, 0, 1, -1, 2, 7, 10**20, 0.0, -0.0, 1e-7, -1e-7, 1e-3, 2.5, float('inf'), float('-inf'),
          float('nan'), 'x', [1]]
def tok(v):
    if v is None: return 'none'
    if v is True: return 'b1'
    if v is False: return 'b0'
    if isinstance(v, int): return 'i%d' % v
    if isinstance(v, float):
        if math.isnan(v): return 'nan'
        if math.isinf(v): return 'inf' if v > 0 else '-inf'
        fr = fractions.Fraction(v); return 'f%d/%d' % (fr.numerator, fr.denominator)
    if isinstance(v, str): return 's' + v
    return 'other'

KEYS = ['maxiters', 'abstol', 'reltol', 'feastol', 'refinement', 'kktreg', 'show_progress', 'debug', 'use_correction']

def isnum(v): return isinstance(v, (int, float))
def documented_good(d, ep):
    """independent statement of the documented rules: is this option dictionary valid?"""
    mi = d.get('maxiters', 100)
    if not isinstance(mi, int) or mi < 1: return False
    a, r, f = d.get('abstol', 1e-7), d.get('reltol', 1e-6), d.get('feastol', 1e-7)
    if not (isnum(a) and isnum(r) and isnum(f)): return False
    if r <= 0.0 and a <= 0.0: return False
    if f <= 0.0: return False
    if 'refinement' in d:
        rf = d['refinement']
        if rf is None and ep == 'conelp': pass
        elif not isinstance(rf, int) or rf < 0: return False
    k = d.get('kktreg', None)
    if k is not None and (not isnum(k) or k < 0.0): return False
    return True

def gen_dict(rng):
    d = {}
    for k in KEYS[:6]:
        r = rng.random()
        if r < 0.45: continue
        if r < 0.75:   # mostly valid
            d[k] = {'maxiters': rng.choice([1, 2, 5, 30, True]), 'abstol': rng.choice([1e-7, 1e-3, 0.0, -1.0, 1]),
                    'reltol': rng.choice([1e-6, 1e-3, 0.0, -1.0]), 'feastol': rng.choice([1e-7, 1e-4, 1]),
                    'refinement': rng.choice([0, 1, 2, True]), 'kktreg': rng.choice([None, 0.0, 1e-9, 0])}[k]
        else:
            d[k] = rng.choice(VALUES)
    return d

def quiet(f, *a, **k):
    with contextlib.redirect_stdout(io.StringIO()):
        return f(*a, **k)

def call(ARGS, ep, options=None):
    f, a, kw = ARGS[ep]
    kw = dict(kw)
    if options is not None: kw['options'] = options
    return quiet(f, *a, **kw)

def image(obj):
    """byte image used for purity / bit-identity comparisons"""
    def conv(o):
        if isinstance(o, dict): return {k: conv(v) for k, v in sorted(o.items(), key=lambda kv: str(kv[0]))}
        if isinstance(o, (list, tuple)): return [conv(v) for v in o]
        if callable(o) and not hasattr(o, 'typecode'): return 'callable'
        return o
    return pickle.dumps(conv(obj), protocol=4)

def module_globals_image(cvxopt):
    import cvxopt.coneprog as cp_, cvxopt.cvxprog as cx_, cvxopt.misc as ms_
    out = {}
    for m in (cp_, cx_, ms_, cvxopt.solvers):
        for k, v in vars(m).items():
            if k.startswith('__'): continue
            if isinstance(v, (int, float, str, bool, dict, list, tuple, type(None))):
                try: out[m.__name__ + '.' + k] = pickle.dumps(v)
                except Exception: pass
    return out

def correspond(ctx):
    cvxopt = vlib.use_build(ctx.build)
    from corr import problems
    from cvxopt import solvers
    rng = random.Random(ctx.seed * 1000003 + 9)
    solvers.options.clear(); solvers.options['show_progress'] = False
    ARGS = problems.basic_calls(cvxopt)
    lines, expect, meta = [], [], []
    evals = 0
    distinct = set()

    # (a) options= flow ------------------------------------------------------------
    for ep in EPS:
        solvers.options.clear(); solvers.options['show_progress'] = False
        base = call(ARGS, ep)
        r1 = call(ARGS, ep, {'maxiters': 1, 'show_progress': False})
        solvers.options['maxiters'] = 1
        r0 = call(ARGS, ep)
        solvers.options.clear(); solvers.options['show_progress'] = False
        evals += 3
        assert base['status'] == 'optimal', (ep, base['status'])
        override = r1['status'] == 'unknown' and r1.get('iterations', 1) <= 1
        default = r0['status'] == 'unknown' and r0.get('iterations', 1) <= 1
        lines.append('flow ' + ep); expect.append('override=%s default=%s' % (str(override).lower(), str(default).lower()))
        meta.append(('flow', ep))
        if not override:
            ctx.violation('c09:ignores-options-keyword:' + ep,
                          "%s(..., options={'maxiters': 1}) ignores the keyword: status %s, iterations %s "
                          "(global solvers.options is used instead)" % (ep, r1['status'], r1.get('iterations')),
                          {'entry': ep, 'options': {'maxiters': 1}, 'status': r1['status'], 'iterations': r1.get('iterations')})
        if not default:
            ctx.violation('c09:ignores-global-options:' + ep, "%s ignores solvers.options['maxiters']=1" % ep, {'entry': ep})

    # (b) validation ------------------------------------------------------------
    n = 150 if ctx.quick() else 3000
    QS = {'conelp': False, 'coneqp': False, 'cpl': False, 'lp': False, 'qp': False, 'socp': True, 'sdp': True,
          'cp': False, 'gp': False}
    parser_of = {'conelp': 'conelp', 'lp': 'conelp', 'socp': 'conelp', 'sdp': 'conelp', 'coneqp': 'coneqp',
                 'qp': 'coneqp', 'cpl': 'cpl', 'cp': 'cpl', 'gp': 'cpl'}
    for i in range(n):
        ep = rng.choice(['conelp', 'coneqp', 'cpl', 'lp', 'qp', 'sdp', 'cp', 'gp', 'socp'])
        d = gen_dict(rng)
        d.setdefault('show_progress', False)
        for kk, cap in (('maxiters', 50), ('refinement', 4)):
            if isinstance(d.get(kk), int) and d[kk] is not True and d[kk] > cap: d[kk] = cap
        if d.get('maxiters', 1) is not True and isinstance(d.get('maxiters', 1), int) and d.get('maxiters', 1) > 50: d['maxiters'] = 50
        before = image(d)
        try:
            r = call(ARGS, ep, d); obs = 'ok'
        except ValueError as e:
            obs = 'error ValueError' if 'options[' in str(e) else 'ok'
        except Exception as e:
            obs = 'ok-then-' + type(e).__name__
            if not isinstance(e, (ArithmeticError, ZeroDivisionError, OverflowError)):
                ctx.violation('c09:undocumented-exception:%s:%s' % (ep, type(e).__name__),
                              '%s with options %r raised %s: %s' % (ep, d, type(e).__name__, e), {'entry': ep, 'options': repr(d)})
        evals += 1
        distinct.add((ep, before))
        if image(d) != before:
            ctx.violation('c09:options-dict-modified:' + ep, '%s modified its options dictionary %r' % (ep, d), {'entry': ep})
        good = documented_good(d, parser_of[ep])
        if obs.startswith('ok') and not good:
            ctx.violation('c09:invalid-option-accepted:%s' % parser_of[ep],
                          '%s accepted the invalid options %r' % (ep, d), {'entry': ep, 'options': repr(d)})
        if obs.startswith('error') and good:
            ctx.violation('c09:valid-option-rejected:%s' % parser_of[ep],
                          '%s rejected the valid options %r' % (ep, d), {'entry': ep, 'options': repr(d)})
        mi = d.get('maxiters', 100)
        if obs == 'ok' and 'iterations' in r and isinstance(mi, int) and r['iterations'] > int(mi):
            ctx.violation('c09:maxiters-exceeded:' + ep, '%s ran %d iterations with maxiters=%r' % (ep, r['iterations'], d.get('maxiters')),
                          {'entry': ep, 'options': repr(d)})
        lines.append('parse %s %d %s' % (parser_of[ep], 1 if QS[ep] else 0,
                                         ' '.join('%s=%s' % (k, tok(v)) for k, v in d.items())))
        expect.append('ok' if obs.startswith('ok') else obs)
        meta.append(('parse', ep, repr(d)))
    out = vlib.drive('C09', lines)
    dis = 0
    for l, e, o, m in zip(lines, expect, out, meta):
        o2 = o.split(' ')[0] if o.startswith('ok') else o
        if o2 != e:
            dis += 1
            if dis <= 3: ctx.broke('correspondence C09 (generated option model vs entry point)', {'line': l, 'impl': e, 'model': o, 'case': m})

    # (c,d) purity and history independence --------------------------------------
    hist_n = 60 if ctx.quick() else 1500
    ref = {}
    for ep in EPS:
        solvers.options.clear(); solvers.options['show_progress'] = False
        ref[ep] = image(call(ARGS, ep, {'show_progress': False, 'maxiters': 30}))
    # diagnostic options: show_progress / debug only print - the result is bit-identical, the per-call value wins over the global one, and
    # nothing is printed when the per-call dictionary switches the progress report off
    for ep in EPS:
        if ep == 'op.solve': continue
        for glob_sp, opt in ((False, {'show_progress': True}), (True, {'show_progress': False}), (False, {'show_progress': False, 'debug': True}), (False, {'show_progress': True, 'debug': True})):
            solvers.options.clear(); solvers.options['show_progress'] = glob_sp
            buf = io.StringIO(); f_, a_, kw_ = ARGS[ep]
            try:
                with contextlib.redirect_stdout(buf): r = f_(*a_, **dict(kw_, options=dict(opt, maxiters=30)))
            except Exception as e:
                ctx.violation('c09:diagnostic-option-raises:%s:%s' % (ep, type(e).__name__), '%s with options %r raised %s: %s' % (ep, opt, type(e).__name__, e), {'entry': ep, 'options': opt}); continue
            evals += 1
            if image(r) != ref[ep]:
                ctx.violation('c09:diagnostic-option-changes-result:' + ep, '%s with options %r returns a different result than without the diagnostic output' % (ep, opt), {'entry': ep, 'options': opt})
            printed = bool(buf.getvalue().strip())
            if printed != bool(opt.get('show_progress') or opt.get('debug')):
                ctx.violation('c09:show-progress-not-honoured:' + ep, "%s with options %r and solvers.options['show_progress'] = %r %s" % (ep, opt, glob_sp, 'printed a progress report' if printed else 'printed nothing'),
                              {'entry': ep, 'options': opt, 'global_show_progress': glob_sp})
    solvers.options.clear(); solvers.options['show_progress'] = False
    impure = 0
    for i in range(hist_n):
        k = rng.randint(2, 6)
        seq = [rng.choice(EPS) for _ in range(k)]
        for ep in seq:
            # arbitrary edits of the global dictionary between calls
            solvers.options.clear()
            for key in rng.sample(['maxiters', 'abstol', 'reltol', 'feastol', 'refinement'], rng.randint(0, 3)):
                solvers.options[key] = {'maxiters': rng.choice([1, 3, 100]), 'abstol': rng.choice([1e-3, 1e-9]),
                                        'reltol': rng.choice([1e-2, 1e-8]), 'feastol': rng.choice([1e-3, 1e-9]),
                                        'refinement': rng.choice([0, 2])}[key]
            solvers.options['show_progress'] = False
            f, a, kw = ARGS[ep]
            g0 = module_globals_image(cvxopt)
            a0 = image([a, kw]); o0 = image(dict(solvers.options))
            d = {'show_progress': False, 'maxiters': 30}
            d0 = image(d)
            r = call(ARGS, ep, d)
            evals += 1
            if image([a, kw]) != a0:
                ctx.violation('c09:arguments-modified:' + ep, '%s modified its input arguments' % ep, {'entry': ep})
            if image(dict(solvers.options)) != o0 or image(d) != d0:
                ctx.violation('c09:options-modified:' + ep, '%s modified an options dictionary' % ep, {'entry': ep})
            g1 = module_globals_image(cvxopt)
            if g1 != g0:
                ch = [k for k in g1 if g0.get(k) != g1[k]]
                ctx.violation('c09:global-state-modified:' + ep, '%s changed module globals %s' % (ep, ch), {'entry': ep, 'globals': ch})
            if image(r) != ref[ep]:
                ctx.violation('c09:history-dependent:' + ep, 'result of %s differs after history %s' % (ep, seq),
                              {'entry': ep, 'history': seq})
        distinct.add(('hist', tuple(seq)))
    solvers.options.clear(); solvers.options['show_progress'] = False

    # (c') start points kept by the caller: F() returns the SAME matrix object on every call; badly scaled log-sum-exp objectives force the
    # relaxed line search of cpl to save (and sometimes restore) its state.  The start point must come back unchanged and a repeated call must
    # be bit-identical to the first one and to a call with a private copy of the start point.
    from cvxopt import matrix as _mx, spdiag as _spdiag, exp as _exp
    def lse_F(A_, b_, x0_):
        def F(x=None, z=None):
            if x is None: return 0, x0_
            y = A_ * x + b_; ymax = max(y); e = _exp(y - ymax); s_ = sum(e); g = e / s_
            f = ymax + math.log(s_); Df = (A_.T * g).T
            if z is None: return _mx(f), Df
            return _mx(f), Df, z[0] * (A_.T * _spdiag(g) * A_ - A_.T * g * g.T * A_)
        return F
    nkeep = 6 if ctx.quick() else 120
    for it in range(nkeep):
        n_ = 3; m_ = 6
        scale = rng.choice([1.0, 6.0, 12.0])
        A_ = _mx([rng.uniform(-scale, scale) for _ in range(m_ * n_)], (m_, n_)); b_ = _mx([rng.uniform(-0.5, 0.5) for _ in range(m_)])
        G_ = _mx(0.0, (2 * n_, n_))
        for i_ in range(n_): G_[i_, i_] = 1.0; G_[n_ + i_, i_] = -1.0
        h_ = _mx(5.0, (2 * n_, 1))
        x0_ = _mx([rng.choice([3.0, -2.0, 1.0]) for _ in range(n_)]); keep = list(x0_)
        try:
            refr = quiet(solvers.cp, lse_F(A_, b_, _mx(keep)), G_, h_, options={'show_progress': False})
            Fk = lse_F(A_, b_, x0_)
            r1 = quiet(solvers.cp, Fk, G_, h_, options={'show_progress': False}); after1 = list(x0_)
            r2 = quiet(solvers.cp, Fk, G_, h_, options={'show_progress': False})
        except (ValueError, ArithmeticError): continue
        evals += 3
        casek = {'entry': 'cp', 'A': list(A_), 'b': list(b_), 'x0': keep}
        if after1 != keep or list(x0_) != keep:
            ctx.violation('c09:start-point-modified:cp', 'cp overwrote the start point object returned by F(): %r -> %r' % (keep, after1), casek)
        elif image(r1) != image(r2) or image(r1) != image(refr):
            ctx.violation('c09:history-dependent:cp', 'cp with a start point kept by the caller: a repeated call differs from the first one', casek)

    # (d') the given tolerances are the ones applied ----------------------------------
    # planted cone programs of the three kinds with per-call tolerances that all differ: the reported residuals of the returned status
    # must lie within the feastol / abstol / reltol that were passed (the fields themselves are tied to recomputation by C01-C03), and the
    # outcome of an infeasible or unbounded problem must not depend on abstol / reltol (their certificates are accepted on feastol alone)
    ntol = 24 if ctx.quick() else 500
    def solve_planted(pr, kw, o):
        c_, G_, h_, A_, b_, P_ = problems.to_cvx(cvxopt, pr)
        if pr.P is not None: return quiet(solvers.coneqp, P_, c_, G_, h_, pr.dims, A_, b_, options=o, **kw)
        return quiet(solvers.conelp, c_, G_, h_, pr.dims, A_, b_, options=o, **kw)
    for it in range(ntol):
        kind = ['optimal', 'pinf', 'dinf', 'optimal'][it % 4]
        qp_ = kind == 'optimal' and it % 8 == 3
        pr = problems.planted_conelp(rng, kind, P_rank=(rng.randint(0, 3) if qp_ else None))
        ft = rng.choice([1e-5, 1e-6, 1e-8]); at = rng.choice([1e-2, 1e-4, 1e-9, 0.0]); rt = rng.choice([1e-3, 1e-5, 1e-9])
        if at == ft or rt == ft: at = at * 3
        o = {'show_progress': False, 'feastol': ft, 'abstol': at, 'reltol': rt}
        casek = {'entry': 'coneqp' if qp_ else 'conelp', 'kind': kind, 'options': dict(o), 'dims': pr.dims, 'c': pr.c, 'G': pr.G, 'h': pr.h, 'A': pr.A, 'b': pr.b, 'P': pr.P}
        try: r = solve_planted(pr, {}, o)
        except (ValueError, ArithmeticError): continue
        evals += 1; distinct.add(('tol', it))
        st = r['status']; tolr = 1.0 + 1e-9
        def over(field, lim):
            v = r.get(field)
            return v is not None and v > lim * tolr
        badf = None
        if st == 'optimal':
            if over('primal infeasibility', ft): badf = ('primal infeasibility', ft)
            elif over('dual infeasibility', ft): badf = ('dual infeasibility', ft)
            elif not (r['gap'] <= at * tolr or (r['relative gap'] is not None and r['relative gap'] <= rt * tolr)): badf = ('gap', at)
        elif st == 'primal infeasible' and over('residual as primal infeasibility certificate', ft): badf = ('residual as primal infeasibility certificate', ft)
        elif st == 'dual infeasible' and over('residual as dual infeasibility certificate', ft): badf = ('residual as dual infeasibility certificate', ft)
        if badf:
            ctx.violation('c09:tolerance-not-applied:%s:%s' % (casek['entry'], st.replace(' ', '-')),
                          "%s returned %r with '%s' = %r although options %r were given (limit %g)" % (casek['entry'], st, badf[0], r.get(badf[0]), o, badf[1]), casek)
        if kind != 'optimal' and st in ('primal infeasible', 'dual infeasible'):
            o2 = dict(o, abstol=(1e-9 if at > 1e-6 else 1e-2), reltol=(1e-9 if rt > 1e-6 else 1e-3))
            try: r2 = solve_planted(pr, {}, o2)
            except (ValueError, ArithmeticError): continue
            evals += 1
            if (r2['status'], r2['iterations']) != (st, r['iterations']):
                ctx.violation('c09:certificate-depends-on-gap-tolerance:%s' % st.replace(' ', '-'),
                              '%s: %r after %d iterations with %r, but %r after %d iterations with %r (only abstol / reltol differ; the infeasibility tests use feastol)'
                              % (casek['entry'], st, r['iterations'], o, r2['status'], r2['iterations'], o2), dict(casek, options2=o2))

    # (d') op.solve on the same modeling objects: what a solve leaves in the variables and multipliers depends on that solve alone, whatever its status
    # (a run stopped by maxiters ends 'unknown' and hands out its last iterate) and whatever was solved before
    import cvxopt.modeling as Mdl
    def op_history(prefix):
        xv = Mdl.variable(2, 'x')
        c1, c2 = (xv[0] + 2 * xv[1] <= 3), (xv >= 0)
        def mk(): return Mdl.op(-xv[0] - xv[1] * 1.5, [c1, c2])
        def other(): return Mdl.op(xv[0] + xv[1], [c2, xv[0] + xv[1] >= 1])
        def snap(p_): return (p_.status, None if xv.value is None else [float(a) for a in xv.value],
                              [None if c_.multiplier.value is None else [float(a) for a in c_.multiplier.value] for c_ in (c1, c2)])
        with contextlib.redirect_stdout(io.StringIO()):
            for step in prefix:
                q = mk() if step == 'full' else other(); q.solve(options={'show_progress': False})
            p_ = mk(); p_.solve(options={'show_progress': False, 'maxiters': 2})
        return snap(p_)
    ref_h = op_history([])
    for prefix in (['full'], ['other'], ['full', 'other'], ['other', 'full']):
        got = op_history(prefix); evals += 1
        if got != ref_h:
            ctx.violation('c09:op.solve-history-dependent', "op.solve(options={'maxiters': 2}) after the history %r leaves %r, on fresh objects %r" % (prefix, got, ref_h), {'history': prefix})
    # (e) threads -------------------------------------------------------------
    rounds = 5 if ctx.quick() else 100
    bad_threads = 0
    directed = [[ep] * 6 for ep in ('sdp', 'conelp', 'coneqp', 'cpl', 'sdp', 'socp')] * (1 if ctx.quick() else 5)
    old_interval = sys.getswitchinterval(); sys.setswitchinterval(1e-5)          # switch threads often: more interleavings per round
    for rd in range(rounds + len(directed)):
        eps = [rng.choice(EPS[:9]) for _ in range(rng.randint(2, 8))]   # op.solve builds modeling objects: kept sequential
        # directed rounds: several threads inside the same entry point at once (same code path, same work-space shapes)
        if rd >= rounds: eps = directed[rd - rounds]
        res = [None] * len(eps)
        # every thread gets its own problem instance (independent problems)
        argsets = [problems.basic_calls(cvxopt) for _ in eps]
        def work(i):
            try:
                res[i] = image(call(argsets[i], eps[i], {'show_progress': False, 'maxiters': 30}))
            except Exception as e:
                res[i] = 'EXC %s' % type(e).__name__
        ts = [threading.Thread(target=work, args=(i,)) for i in range(len(eps))]
        with contextlib.redirect_stdout(io.StringIO()):
            for t in ts: t.start()
            for t in ts: t.join()
        evals += len(eps)
        for i, ep in enumerate(eps):
            if res[i] != ref[ep]:
                bad_threads += 1
                ctx.violation('c09:thread-dependent:' + ep, 'result of %s in a thread (round %s) differs from the sequential run' % (ep, eps),
                              {'entry': ep, 'round': eps})
    sys.setswitchinterval(old_interval)
    ctx.cov.update({'evaluations': evals, 'distinct_nontrivial': len(distinct),
                    'rule': 'option dictionaries (45%% absent / 30%% valid / 25%% arbitrary values per key) x 9 entry points compared '
                            'with the generated parser; flow probes (maxiters=1 per call and globally) for all 10 entry points; '
                            'call histories of length 2-6 with edits of solvers.options in between; thread rounds of 2-8 concurrent (random mixes, and directed rounds of six threads inside the same entry point; switch interval 1e-5 s) '
                            'solves; distinct = (entry point, option dictionary) or history',
                    'protocol_lines_compared': len(lines), 'disagreements_checked': dis, 'histories': hist_n,
                    'thread_rounds': rounds + len(directed)})
    ctx.samples += [l for l in lines[:3]] + [l for l in lines[12:15]]

def search(ctx, why):
    # the oracles of correspond() are the property itself on the real code; nothing more to search with
    return

def replay(ctx, payload):
    correspond(ctx)
