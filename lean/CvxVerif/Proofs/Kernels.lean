import CvxVerif.Model.Kernels
import CvxVerif.Proofs.Dense
import Mathlib.Algebra.Order.Field.Rat
import Mathlib.Tactic.Ring
import Mathlib.Tactic.FieldSimp
import Mathlib.Tactic.Linarith
/-! Algebra of the list-level vector operations used by the cone kernels. -/
namespace CvxVerif.Kernels

theorem dot_cons (a b : Rat) (x y : List Rat) : dot (a :: x) (b :: y) = a * b + dot x y := by
  simp [dot]

theorem dot_axpy (c : Rat) (v x : List Rat) (h : v.length = x.length) :
    dot v (axpy c v x) = c * dot v v + dot v x := by
  induction v generalizing x with
  | nil => simp [dot, axpy]
  | cons a v ih =>
    cases x with
    | nil => simp at h
    | cons b x =>
      have hl : v.length = x.length := by simpa using h
      have := ih x hl
      simp only [axpy, List.zipWith_cons_cons, dot_cons] at this ⊢
      rw [this]; ring

theorem dot_map_mul (c : Rat) (v x : List Rat) : dot v (x.map (c * ·)) = c * dot v x := by
  induction v generalizing x with
  | nil => simp [dot]
  | cons a v ih =>
    cases x with
    | nil => simp [dot]
    | cons b x => simp only [List.map_cons, dot_cons, ih]; ring

theorem dot_smul_right (c : Rat) (v x : List Rat) : dot v (smul c x) = c * dot v x := dot_map_mul c v x

theorem dot_comm (x y : List Rat) : dot x y = dot y x := by
  induction x generalizing y with
  | nil => cases y <;> simp [dot]
  | cons a x ih => cases y with
    | nil => simp [dot]
    | cons b y => simp only [dot_cons, ih y]; ring

/-- elementwise cancellation used by the inverse scaling of a 'q' block -/
theorem axpy_cancel (beta b : Rat) (hb : beta ≠ 0) (v x : List Rat) (h : v.length = x.length) :
    (axpy (-(beta * b)) v ((axpy b v x).map (beta * ·))).map (· / beta) = x := by
  induction v generalizing x with
  | nil => cases x with
    | nil => rfl
    | cons _ _ => simp at h
  | cons a v ih =>
    cases x with
    | nil => simp at h
    | cons c x =>
      have hl : v.length = x.length := by simpa using h
      simp only [axpy, List.zipWith_cons_cons, List.map_cons, List.cons.injEq] at ih ⊢
      refine ⟨by field_simp; ring, ?_⟩
      have := ih x hl
      simpa [axpy] using this

/-- elementwise cancellation used by `sinv ∘ sprod` on a 'q' block -/
theorem axpy_cancel2 (p q r aa : Rat) (haa : aa ≠ 0) (hpq : p + q * r = 0) (y1 x1 : List Rat)
    (h : y1.length = x1.length) (y0 : Rat) (hq : q * y0 = aa) :
    (axpy p y1 (smul q (axpy r y1 (smul y0 x1)))).map (· / aa) = x1 := by
  induction y1 generalizing x1 with
  | nil => cases x1 with
    | nil => rfl
    | cons _ _ => simp at h
  | cons a y1 ih =>
    cases x1 with
    | nil => simp at h
    | cons c x1 =>
      have hl : y1.length = x1.length := by simpa using h
      simp only [axpy, smul, List.zipWith_cons_cons, List.map_cons, List.cons.injEq] at ih ⊢
      refine ⟨?_, by simpa [axpy, smul] using ih x1 hl⟩
      have : p * a + q * (r * a + y0 * c) = aa * c := by
        have h1 : p * a + q * (r * a + y0 * c) = (p + q * r) * a + (q * y0) * c := by ring
        rw [h1, hpq, hq]; ring
      rw [this]; field_simp

theorem ent_ofFn (k : Nat) (f : Nat → Nat → Rat) (i j : Nat) (hi : i < k) (hj : j < k) : ent k (ofFn k f) i j = f i j := by
  unfold ent ofFn
  have := CvxVerif.Dense.getD_flatMap_map (List.range k) (List.range k) (fun (j i : Nat) => f i j) i j
    (by simpa using hi) (by simpa using hj) (0 : Rat)
  simp only [List.length_range, List.getElem_range] at this
  rw [Nat.add_comm]; exact this

end CvxVerif.Kernels
