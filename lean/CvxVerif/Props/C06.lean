import CvxVerif.Gen.Dispatch
import CvxVerif.Proofs.PyVal
/-!
# C06 — the answer does not depend on problem presentation or solver path

Part 1 (this file, generated tie): the `kktsolver` name dispatch of every native solver, regenerated from
the source on every run (`Gen/Dispatch.lean`).
Part 2 (`Props/C06Present.lean`): presentation maps preserve feasibility, optimal value and certificates.
-/
namespace CvxVerif.C06
open CvxVerif.Py CvxVerif.Gen.Dispatch

/-- what a correct dispatch result looks like for the argument `k` -/
def GoodDispatch (k : Val) (r : M (String × Nat)) : Prop :=
  match r with
  | .error e => e = "ValueError" ∧ k.isInst ["str"] = true        -- only a string can be rejected, with ValueError
  | .ok (n, a) =>
    if k.isInst ["str"] = true ∨ k = Val.none then
      ∃ m, (n, m) ∈ factories ∧ a ≤ m                             -- a name or the default selects a built-in factory
    else n = "callable"                                           -- anything else is used as the user's solver

theorem pyIf_ok {α} (c : Bool) (a b : M α) : pyIf (Except.ok c) a b = if c then a else b := by
  cases c <;> rfl

syntax "dispatch_simp" ident : tactic
macro_rules
  | `(tactic| dispatch_simp $d:ident) => `(tactic|
      simp [$d:ident, GoodDispatch, pyIf_ok, raiseIf, pyAnd, Val.isNone, Val.isInst, Val.inStrs, factories,
           bind, Except.bind, pure, Except.pure, throw, throwThe, MonadExceptOf.throw, *])

syntax "dispatch_tac" ident : tactic
macro_rules
  | `(tactic| dispatch_tac $d:ident) => `(tactic|
      (intro k qs
       cases k with
       | str s =>
         by_cases h1 : s = "ldl"
         · subst h1; dispatch_simp $d
         by_cases h2 : s = "ldl2"
         · subst h2; dispatch_simp $d
         by_cases h3 : s = "chol"
         · subst h3; dispatch_simp $d
         by_cases h4 : s = "chol2"
         · subst h4; dispatch_simp $d
         by_cases h5 : s = "qr"
         · subst h5; dispatch_simp $d
         dispatch_simp $d
       | _ => cases qs <;> dispatch_simp $d))

theorem C06_dispatch_total_conelp : ∀ k qs, GoodDispatch k (conelp_dispatch k qs) := by
  dispatch_tac conelp_dispatch

theorem C06_dispatch_total_coneqp : ∀ k qs, GoodDispatch k (coneqp_dispatch k qs) := by
  dispatch_tac coneqp_dispatch

theorem C06_dispatch_total_cpl : ∀ k qs, GoodDispatch k (cpl_dispatch k qs) := by
  dispatch_tac cpl_dispatch

theorem C06_dispatch_total_cp : ∀ k qs, GoodDispatch k (cp_dispatch k qs) := by
  dispatch_tac cp_dispatch

/-- the wrappers lp, socp, sdp, qp, gp hand `kktsolver` on unchanged to a native solver that dispatches it -/
theorem C06_wrappers_pass :
    ∀ w ∈ ["lp", "socp", "sdp", "qp", "gp"], ∃ x ∈ wrappers, x.1 = w ∧ x.2.2 = true ∧
      ∃ d ∈ dispatchers, d.1 = x.2.1 := by decide

end CvxVerif.C06
