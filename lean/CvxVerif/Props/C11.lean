import CvxVerif.Proofs.Expr

/-!
C11 — modeling expressions evaluate to what their formula says.

The theorems are about the direct semantics `Spec/Expr.lean` of the documented expression language (the correspondence harness
`tools/corr/c11.py` compares it with the real `cvxopt.modeling` objects on generated trees: `len`, `value()`, acceptance/refusal).
The main theorem is curvature soundness for *all* expression trees, lengths, values and mixing weights: whatever the composition
rules accept as convex (affine, concave, constant) really is.
-/
namespace CvxVerif.Expr

/-- Curvature soundness, all classes at once: for every expression the rules accept with class `c`, every pair of assignments
`ρ1`, `ρ2`, every `t ∈ [0,1]` and every component `k`, the values at `ρ1`, `ρ2` and `t·ρ1+(1-t)·ρ2` are related as `c` promises. -/
theorem C11_curvature_sound (L : Lens) (ρ1 ρ2 : Env) (t : Rat) (ht0 : 0 ≤ t) (ht1 : t ≤ 1) :
    ∀ (e : Expr) (c : Curv), curv L e = some c →
      ∀ k, Rel t c (evalAt L ρ1 e k) (evalAt L ρ2 e k) (evalAt L (mix t ρ1 ρ2) e k) := by
  intro e
  induction e with
  | var i => intro c h k; simp only [curv, Option.some.injEq] at h; subst h; simp only [evalAt, Rel, mix]
  | const v => intro c h k; simp only [curv, Option.some.injEq] at h; subst h; simp only [evalAt, Rel, and_self]
  | add a b iha ihb | iadd a b iha ihb =>
    intro c h k
    simp only [curv, Option.bind_eq_bind] at h
    cases ha : curv L a with
    | none => simp [ha] at h
    | some ka =>
      cases hb : curv L b with
      | none => simp [ha, hb] at h
      | some kb =>
        simp only [ha, hb, Option.bind_some] at h
        simp only [evalAt]
        exact Rel.add h (by split <;> exact iha ka ha _) (by split <;> exact ihb kb hb _)
  | sub a b iha ihb | isub a b iha ihb =>
    intro c h k
    simp only [curv, Option.bind_eq_bind] at h
    cases ha : curv L a with
    | none => simp [ha] at h
    | some ka =>
      cases hb : curv L b with
      | none => simp [ha, hb] at h
      | some kb =>
        simp only [ha, hb, Option.bind_some] at h
        simp only [evalAt]
        exact Rel.sub h (by split <;> exact iha ka ha _) (by split <;> exact ihb kb hb _)
  | neg a iha =>
    intro c h k
    simp only [curv, Option.bind_eq_bind] at h
    cases ha : curv L a with
    | none => simp [ha] at h
    | some ka =>
      simp only [ha, Option.bind_some, Option.some.injEq] at h; subst h
      simp only [evalAt]; exact (iha ka ha k).flip
  | smul r a iha =>
    intro c h k
    simp only [curv, Option.bind_eq_bind] at h
    cases ha : curv L a with
    | none => simp [ha] at h
    | some ka =>
      simp only [ha, Option.bind_some, Option.some.injEq] at h
      simp only [evalAt]
      have ih := iha ka ha k
      by_cases h1 : ka = .num
      · simp only [h1, if_true] at h; subst h; subst h1; exact Rel.smul_lin r (Or.inr (Or.inr rfl)) ih
      · simp only [h1, if_false] at h
        by_cases h2 : r = 0
        · simp only [h2, if_true] at h; subst h; subst h2; exact Rel.zero_const _ _ _
        · simp only [h2, if_false] at h
          by_cases h3 : r < 0
          · simp only [h3, if_true] at h; subst h; exact Rel.smul_neg r h3 ih
          · simp only [h3, if_false] at h; subst h; exact Rel.smul_nonneg r (not_lt.mp h3) ih
  | sdiv a r iha =>
    intro c h k
    simp only [curv, Option.bind_eq_bind] at h
    cases ha : curv L a with
    | none => simp [ha] at h
    | some ka =>
      simp only [ha, Option.bind_some, Option.some.injEq] at h; subst h
      simp only [evalAt]; exact Rel.div r (iha ka ha k)
  | mmul rows a iha =>
    intro c h k
    simp only [curv, Option.bind_eq_bind] at h
    cases ha : curv L a with
    | none => simp [ha] at h
    | some ka =>
      simp only [ha, Option.bind_some] at h
      split at h
      · rename_i hk; simp only [Option.some.injEq] at h; subst h
        simp only [evalAt]
        exact Rel.sum_to (fun j => Rel.smul_lin _ hk (iha ka ha j)) _
      · simp at h
  | dot cv a iha =>
    intro c h k
    simp only [curv, Option.bind_eq_bind] at h
    cases ha : curv L a with
    | none => simp [ha] at h
    | some ka =>
      simp only [ha, Option.bind_some] at h
      split at h
      · rename_i hk; simp only [Option.some.injEq] at h; subst h
        simp only [evalAt]
        exact Rel.sum_to (fun j => Rel.smul_lin _ hk (iha ka ha j)) _
      · simp at h
  | sum a iha =>
    intro c h k
    simp only [curv] at h
    simp only [evalAt]
    exact Rel.sum_to (fun j => iha c h j) _
  | idx a i iha => intro c h k; simp only [curv] at h; simp only [evalAt]; exact iha c h _
  | slice a lo hi iha => intro c h k; simp only [curv] at h; simp only [evalAt]; exact iha c h _
  | max2 a b iha ihb =>
    intro c h k
    simp only [curv, Option.bind_eq_bind] at h
    cases ha : curv L a with
    | none => simp [ha] at h
    | some ka =>
      cases hb : curv L b with
      | none => simp [ha, hb] at h
      | some kb =>
        simp only [ha, hb, Option.bind_some] at h
        cases hj : Curv.join ka kb with
        | none => simp [hj] at h
        | some j =>
          simp only [hj, Option.bind_some] at h
          simp only [evalAt]
          have xa : ∀ k, Rel t ka (if len L a = some 1 then evalAt L ρ1 a 0 else evalAt L ρ1 a k)
              (if len L a = some 1 then evalAt L ρ2 a 0 else evalAt L ρ2 a k)
              (if len L a = some 1 then evalAt L (mix t ρ1 ρ2) a 0 else evalAt L (mix t ρ1 ρ2) a k) := by
            intro k; split <;> exact iha ka ha _
          have xb : ∀ k, Rel t kb (if len L b = some 1 then evalAt L ρ1 b 0 else evalAt L ρ1 b k)
              (if len L b = some 1 then evalAt L ρ2 b 0 else evalAt L ρ2 b k)
              (if len L b = some 1 then evalAt L (mix t ρ1 ρ2) b 0 else evalAt L (mix t ρ1 ρ2) b k) := by
            intro k; split <;> exact ihb kb hb _
          by_cases h1 : j = .num
          · simp only [h1, if_true, Option.some.injEq] at h; subst h; subst h1
            have : ka = .num ∧ kb = .num := by cases ka <;> cases kb <;> simp_all [Curv.join]
            obtain ⟨rfl, rfl⟩ := this
            exact Rel.num_max2 (xa k) (xb k)
          · simp only [h1, if_false] at h
            by_cases h2 : j = .concave
            · simp [h2] at h
            · simp only [h2, if_false, Option.some.injEq] at h; subst h
              have na : ka ≠ .concave := by intro e; subst e; cases kb <;> simp_all [Curv.join]
              have nb : kb ≠ .concave := by intro e; subst e; cases ka <;> simp_all [Curv.join]
              exact Rel.max2 ht0 ht1 ((xa k).toConvex na) ((xb k).toConvex nb)
  | min2 a b iha ihb =>
    intro c h k
    simp only [curv, Option.bind_eq_bind] at h
    cases ha : curv L a with
    | none => simp [ha] at h
    | some ka =>
      cases hb : curv L b with
      | none => simp [ha, hb] at h
      | some kb =>
        simp only [ha, hb, Option.bind_some] at h
        cases hj : Curv.join ka kb with
        | none => simp [hj] at h
        | some j =>
          simp only [hj, Option.bind_some] at h
          simp only [evalAt]
          have xa : ∀ k, Rel t ka (if len L a = some 1 then evalAt L ρ1 a 0 else evalAt L ρ1 a k)
              (if len L a = some 1 then evalAt L ρ2 a 0 else evalAt L ρ2 a k)
              (if len L a = some 1 then evalAt L (mix t ρ1 ρ2) a 0 else evalAt L (mix t ρ1 ρ2) a k) := by
            intro k; split <;> exact iha ka ha _
          have xb : ∀ k, Rel t kb (if len L b = some 1 then evalAt L ρ1 b 0 else evalAt L ρ1 b k)
              (if len L b = some 1 then evalAt L ρ2 b 0 else evalAt L ρ2 b k)
              (if len L b = some 1 then evalAt L (mix t ρ1 ρ2) b 0 else evalAt L (mix t ρ1 ρ2) b k) := by
            intro k; split <;> exact ihb kb hb _
          by_cases h1 : j = .num
          · simp only [h1, if_true, Option.some.injEq] at h; subst h; subst h1
            have : ka = .num ∧ kb = .num := by cases ka <;> cases kb <;> simp_all [Curv.join]
            obtain ⟨rfl, rfl⟩ := this
            exact Rel.num_min2 (xa k) (xb k)
          · simp only [h1, if_false] at h
            by_cases h2 : j = .convex
            · simp [h2] at h
            · simp only [h2, if_false, Option.some.injEq] at h; subst h
              have na : ka ≠ .convex := by intro e; subst e; cases kb <;> simp_all [Curv.join]
              have nb : kb ≠ .convex := by intro e; subst e; cases ka <;> simp_all [Curv.join]
              exact Rel.min2 ht0 ht1 ((xa k).toConcave na) ((xb k).toConcave nb)
  | maxv a iha =>
    intro c h k
    simp only [curv, Option.bind_eq_bind] at h
    cases ha : curv L a with
    | none => simp [ha] at h
    | some ka =>
      simp only [ha, Option.bind_some] at h
      simp only [evalAt]
      by_cases h1 : ka = .num
      · simp only [h1, if_true, Option.some.injEq] at h; subst h; subst h1
        exact Rel.num_max_to (fun j => iha _ ha j) _
      · simp only [h1, if_false] at h
        by_cases h2 : len L a = some 1
        · simp only [h2, if_true, Option.some.injEq] at h; subst h
          simp only [h2, Option.getD_some, Nat.sub_self, maxTo]; exact iha _ ha 0
        · simp only [h2, if_false] at h
          by_cases h3 : ka = .concave
          · simp [h3] at h
          · simp only [h3, if_false, Option.some.injEq] at h; subst h
            exact Rel.max_to ht0 ht1 (fun j => (iha _ ha j).toConvex h3) _
  | minv a iha =>
    intro c h k
    simp only [curv, Option.bind_eq_bind] at h
    cases ha : curv L a with
    | none => simp [ha] at h
    | some ka =>
      simp only [ha, Option.bind_some] at h
      simp only [evalAt]
      by_cases h1 : ka = .num
      · simp only [h1, if_true, Option.some.injEq] at h; subst h; subst h1
        exact Rel.num_min_to (fun j => iha _ ha j) _
      · simp only [h1, if_false] at h
        by_cases h2 : len L a = some 1
        · simp only [h2, if_true, Option.some.injEq] at h; subst h
          simp only [h2, Option.getD_some, Nat.sub_self, minTo]; exact iha _ ha 0
        · simp only [h2, if_false] at h
          by_cases h3 : ka = .convex
          · simp [h3] at h
          · simp only [h3, if_false, Option.some.injEq] at h; subst h
            exact Rel.min_to ht0 ht1 (fun j => (iha _ ha j).toConcave h3) _
  | abs a iha =>
    intro c h k
    simp only [curv, Option.bind_eq_bind] at h
    cases ha : curv L a with
    | none => simp [ha] at h
    | some ka =>
      simp only [ha, Option.bind_some] at h
      simp only [evalAt]
      by_cases h1 : ka = .num
      · simp only [h1, if_true, Option.some.injEq] at h; subst h; subst h1
        exact Rel.num_abs (iha _ ha k)
      · simp only [h1, if_false] at h
        split at h
        · rename_i hk; simp only [Option.some.injEq] at h; subst h
          exact Rel.abs ht0 ht1 hk (iha _ ha k)
        · simp at h

/-- A function the rules accept as convex satisfies Jensen's inequality in every component. -/
theorem C11_accepted_convex_is_convex (L : Lens) (e : Expr) (h : curv L e = some .convex) (ρ1 ρ2 : Env) (t : Rat) (ht0 : 0 ≤ t) (ht1 : t ≤ 1) (k : Nat) :
    evalAt L (mix t ρ1 ρ2) e k ≤ t * evalAt L ρ1 e k + (1 - t) * evalAt L ρ2 e k :=
  C11_curvature_sound L ρ1 ρ2 t ht0 ht1 e _ h k

theorem C11_accepted_concave_is_concave (L : Lens) (e : Expr) (h : curv L e = some .concave) (ρ1 ρ2 : Env) (t : Rat) (ht0 : 0 ≤ t) (ht1 : t ≤ 1) (k : Nat) :
    t * evalAt L ρ1 e k + (1 - t) * evalAt L ρ2 e k ≤ evalAt L (mix t ρ1 ρ2) e k :=
  C11_curvature_sound L ρ1 ρ2 t ht0 ht1 e _ h k

/-- A function the rules accept as affine is affine (here for weights in [0,1]; that is what the solver interface relies on). -/
theorem C11_accepted_affine_is_affine (L : Lens) (e : Expr) (h : curv L e = some .affine) (ρ1 ρ2 : Env) (t : Rat) (ht0 : 0 ≤ t) (ht1 : t ≤ 1) (k : Nat) :
    evalAt L (mix t ρ1 ρ2) e k = t * evalAt L ρ1 e k + (1 - t) * evalAt L ρ2 e k :=
  C11_curvature_sound L ρ1 ρ2 t ht0 ht1 e _ h k

/-- A function object without variables (and a plain number) has the same value under every assignment. -/
theorem C11_constant_ignores_values (L : Lens) (e : Expr) (h : curv L e = some .const ∨ curv L e = some .num) (ρ1 ρ2 : Env) (k : Nat) :
    evalAt L ρ1 e k = evalAt L ρ2 e k := by
  rcases h with h | h
  · have := C11_curvature_sound L ρ1 ρ2 1 (by norm_num) (le_refl _) e _ h k
    simp only [Rel] at this; rw [this.1, this.2]
  · have := C11_curvature_sound L ρ1 ρ2 1 (by norm_num) (le_refl _) e _ h k
    simp only [Rel] at this; rw [this.1, this.2]

/-- `f.value()` has exactly `len(f)` entries. -/
theorem C11_value_has_len (L : Lens) (ρ : Env) (e : Expr) (v : List Rat) (h : eval L ρ e = some v) : len L e = some v.length := by
  unfold eval at h
  cases hl : len L e with
  | none => simp [hl] at h
  | some n => simp only [hl, Option.map_some, Option.some.injEq] at h; subst h; simp

/-- the value is defined exactly when the dimensions match -/
theorem C11_value_defined_iff (L : Lens) (ρ : Env) (e : Expr) : (eval L ρ e).isSome = (len L e).isSome := by
  unfold eval; cases len L e <;> rfl

/-- The broadcasting rule: equal lengths are kept, a length-1 operand is stretched, anything else is refused. -/
theorem C11_broadcast_rule (la lb : Nat) :
    bcast la lb = (if la = lb then some la else if la = 1 then some lb else if lb = 1 then some la else none)
    ∧ bcast la lb = bcast lb la ∧ bcast la la = some la ∧ bcast 1 lb = some lb ∧ bcast la 1 = some la
    ∧ (1 < la → 1 < lb → la ≠ lb → bcast la lb = none) := by
  unfold bcast
  refine ⟨rfl, ?_, by simp, ?_, ?_, ?_⟩
  · by_cases h1 : la = lb
    · subst h1; rfl
    · have h2 : ¬ lb = la := fun e => h1 e.symm
      simp only [h1, h2, if_false]
      by_cases h3 : la = 1 <;> by_cases h4 : lb = 1 <;> simp_all
  · by_cases h : 1 = lb <;> simp_all
  · by_cases h : la = 1 <;> simp_all
  · intro h1 h2 h3
    have : ¬ la = 1 := by omega
    have : ¬ lb = 1 := by omega
    simp_all

/-- A sum (difference, componentwise max/min) has a length exactly when the operand lengths broadcast, and then that length. -/
theorem C11_len_binary (L : Lens) (a b : Expr) (na nb : Nat) (ha : len L a = some na) (hb : len L b = some nb) :
    len L (.add a b) = bcast na nb ∧ len L (.sub a b) = bcast na nb ∧ len L (.max2 a b) = bcast na nb ∧ len L (.min2 a b) = bcast na nb := by
  simp [len, ha, hb]

/-- An in-place operation never changes the length of its left operand: it is refused otherwise. -/
theorem C11_inplace_keeps_length (L : Lens) (a b : Expr) (n : Nat) (h : len L (.iadd a b) = some n ∨ len L (.isub a b) = some n) :
    len L a = some n := by
  have key : ∀ x, (do let la ← len L a; let m ← bcast la (← len L b); if m = la then some m else none) = some x → len L a = some x := by
    intro x hx
    cases ha : len L a with
    | none => simp [ha] at hx
    | some la =>
      cases hb : len L b with
      | none => simp [ha, hb] at hx
      | some lb =>
        simp only [ha, hb, Option.bind_eq_bind, Option.bind_some] at hx
        cases hm : bcast la lb with
        | none => simp [hm] at hx
        | some m =>
          simp only [hm, Option.bind_some] at hx
          split at hx
          · simp only [Option.some.injEq] at hx; subst hx; rename_i e; rw [e]
          · simp at hx
  rcases h with h | h <;> exact key n (by simpa only [len] using h)

/-- The refusals required by the curvature rules. -/
theorem C11_refusals (L : Lens) (a b : Expr) :
    (curv L a = some .convex → curv L b = some .concave → curv L (.add a b) = none)
    ∧ (curv L a = some .convex → curv L b = some .convex → curv L (.sub a b) = none)
    ∧ (curv L a = some .concave → curv L (.max2 a b) = none)
    ∧ (curv L b = some .concave → curv L (.max2 a b) = none)
    ∧ (curv L a = some .convex → curv L (.min2 a b) = none)
    ∧ (curv L b = some .convex → curv L (.min2 a b) = none)
    ∧ (curv L a = some .convex ∨ curv L a = some .concave → curv L (.abs a) = none)
    ∧ (∀ rows, curv L a = some .convex ∨ curv L a = some .concave → curv L (.mmul rows a) = none)
    ∧ (∀ c, curv L a = some .convex ∨ curv L a = some .concave → curv L (.dot c a) = none)
    ∧ (curv L a = some .concave → len L a ≠ some 1 → curv L (.maxv a) = none)
    ∧ (curv L a = some .convex → len L a ≠ some 1 → curv L (.minv a) = none) := by
  refine ⟨?_, ?_, ?_, ?_, ?_, ?_, ?_, ?_, ?_, ?_, ?_⟩
  · intro h1 h2; simp [curv, h1, h2, Curv.join]
  · intro h1 h2; simp [curv, h1, h2, Curv.join, Curv.flip]
  · intro h1; simp only [curv, h1, Option.bind_eq_bind, Option.bind_some]
    cases hb : curv L b with
    | none => rfl
    | some kb => cases kb <;> simp [Curv.join]
  · intro h1; simp only [curv, h1, Option.bind_eq_bind, Option.bind_some]
    cases ha : curv L a with
    | none => rfl
    | some ka => cases ka <;> simp [Curv.join]
  · intro h1; simp only [curv, h1, Option.bind_eq_bind, Option.bind_some]
    cases hb : curv L b with
    | none => rfl
    | some kb => cases kb <;> simp [Curv.join]
  · intro h1; simp only [curv, h1, Option.bind_eq_bind, Option.bind_some]
    cases ha : curv L a with
    | none => rfl
    | some ka => cases ka <;> simp [Curv.join]
  · rintro (h | h) <;> simp [curv, h]
  · rintro rows (h | h) <;> simp [curv, h]
  · rintro c (h | h) <;> simp [curv, h]
  · intro h1 h2; simp [curv, h1, h2]
  · intro h1 h2; simp [curv, h1, h2]

/-- Whatever is accepted after a refusal inside it is refused too: refusal propagates to every enclosing expression
(stated for the unary and binary constructors). -/
theorem C11_refusal_propagates (L : Lens) (a b : Expr) (h : curv L a = none) :
    curv L (.add a b) = none ∧ curv L (.add b a) = none ∧ curv L (.sub a b) = none ∧ curv L (.sub b a) = none
    ∧ curv L (.neg a) = none ∧ curv L (.sum a) = none ∧ curv L (.abs a) = none ∧ curv L (.maxv a) = none ∧ curv L (.minv a) = none
    ∧ curv L (.max2 a b) = none ∧ curv L (.max2 b a) = none ∧ curv L (.min2 a b) = none ∧ curv L (.min2 b a) = none
    ∧ (∀ c, curv L (.smul c a) = none) ∧ (∀ c, curv L (.sdiv a c) = none) ∧ (∀ r, curv L (.mmul r a) = none) ∧ (∀ i, curv L (.idx a i) = none) := by
  refine ⟨?_, ?_, ?_, ?_, ?_, ?_, ?_, ?_, ?_, ?_, ?_, ?_, ?_, ?_, ?_, ?_, ?_⟩ <;> (try intro _) <;> simp only [curv, h, Option.bind_eq_bind, Option.bind_none] <;>
    (cases curv L b <;> rfl)

/-! Non-vacuity: concrete expressions over `x` (length 2) and `y` (length 1). -/
def exL : Lens := fun i => if i = 0 then 2 else 1
/-- `max(abs(x), y) + sum(x)` is accepted as convex with length 2 -/
example : curv exL (.add (.max2 (.abs (.var 0)) (.var 1)) (.sum (.var 0))) = some .convex ∧
    len exL (.add (.max2 (.abs (.var 0)) (.var 1)) (.sum (.var 0))) = some 2 := by decide
/-- `max(x, min(y, 3))` is refused -/
example : curv exL (.max2 (.var 0) (.min2 (.var 1) (.const [3]))) = none := by decide
/-- `x - sum(x)` is affine of length 2 -/
example : curv exL (.sub (.var 0) (.sum (.var 0))) = some .affine ∧ len exL (.sub (.var 0) (.sum (.var 0))) = some 2 := by decide

end CvxVerif.Expr
