import CvxVerif.Proofs.KernelsPack
/-!
# C08 — `pack` / `unpack` of 's' blocks

`Model/Kernels.lean`: `packBlk r k b` is the lower triangle of the `k × k` block `b`, column by column, with the off-diagonal entries multiplied
by `r`; `unpackBlk r k p` restores the lower triangle from packed storage.  The compiled kernels and the Python fall-backs use `r = √2`; the
theorems hold for every `r` with the stated property (`r ≠ 0`, resp. `r² = 2`), for every order `k` and all entries.
-/
namespace CvxVerif.Kernels

/-- **what `pack` stores**: entry `(i, j)`, `j ≤ i < k`, of the packed block is the diagonal entry itself or `r` times the off-diagonal entry -/
theorem C08_pack_entry (r : Rat) (k : Nat) (b : List Rat) (i j : Nat) (hi : i < k) (hji : j ≤ i) :
    pent k (packBlk r k b) i j = if i = j then ent k b j j else r * ent k b i j := pent_packBlk r k b i j hi hji

/-- **`unpack ∘ pack` restores the lower triangle** of an 's' block of any order (`r ≠ 0`) -/
theorem C08_unpack_pack (r : Rat) (hr : r ≠ 0) (k : Nat) (b : List Rat) (i j : Nat) (hi : i < k) (hji : j ≤ i) :
    ent k (unpackBlk r k (packBlk r k b)) i j = ent k b i j := by
  have hj : j < k := by omega
  unfold unpackBlk
  rw [ent_ofFn k _ i j hi hj]
  have h1 : ¬ i < j := by omega
  simp only [h1, if_false]
  rw [pent_packBlk r k b i j hi hji]
  by_cases e : i = j
  · subst e; simp
  · simp only [e, if_false]; field_simp

/-- **`pack` is an isometry**: with `r² = 2` the ordinary inner product of two packed blocks is the 's' inner product
`tr(sym(x) sym(y))` of the blocks, for every order -/
theorem C08_pack_isometry (r : Rat) (hr : r * r = 2) (k : Nat) (x y : List Rat) :
    dot (packBlk r k x) (packBlk r k y) = sdotBlk k x y := by
  unfold packBlk sdotBlk
  rw [dot_flatMap _ _ _ (by intro a; simp)]
  congr 1
  apply List.map_congr_left
  intro j hj
  have hjk : j < k := by simpa using hj
  rw [dot_map_range]
  -- the inner sum over all rows: the terms above the diagonal vanish, the others are reindexed by t = i - j
  have hk : k = j + (k - j) := by omega
  have hs := sum_range_shift (fun i => if i == j then ent k x i j * ent k y i j else if j < i then 2 * (ent k x i j * ent k y i j) else 0) j (k - j)
    (by intro i hi
        have h1 : (i == j) = false := by simp; omega
        have h2 : ¬ j < i := by omega
        simp [h1, h2])
  rw [← hk] at hs
  rw [hs]
  congr 1
  apply List.map_congr_left
  intro t _
  by_cases ht : t = 0
  · subst ht; simp
  · have h1 : (j + t == j) = false := by simp; omega
    have h2 : j < j + t := by omega
    simp only [ht, if_false, h1, h2, if_true]
    calc r * ent k x (j + t) j * (r * ent k y (j + t) j) = (r * r) * (ent k x (j + t) j * ent k y (j + t) j) := by ring
      _ = 2 * (ent k x (j + t) j * ent k y (j + t) j) := by rw [hr]

/-- non-vacuity: a 3 × 3 block (entries 1..9 column-major) packed with `r = 3` and unpacked again -/
example : packBlk 3 3 [1, 2, 3, 4, 5, 6, 7, 8, 9] = [1, 6, 9, 5, 18, 9] := by decide +kernel
example : (unpackBlk 3 3 (packBlk 3 3 [1, 2, 3, 4, 5, 6, 7, 8, 9])) = [1, 2, 3, 0, 5, 6, 0, 0, 9] := by decide +kernel

end CvxVerif.Kernels
