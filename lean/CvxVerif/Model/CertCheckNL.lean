import CvxVerif.Model.CertCheck
/-!
Exact (rational) checker of the KKT conditions that `cpl` / `cp` document for status 'optimal', for problems whose nonlinear
functions are convex quadratics `f_k(x) = ½ xᵀQ_k x + q_kᵀx + r_k` (so that `f`, `Df` can be evaluated independently and exactly
at the returned point).  `cpl`: minimize `cᵀx` s.t. `f_k(x) ≤ 0`, `Gx ≼ h`, `Ax = b`.  `cp`: minimize `f_0(x)` s.t. `f_k(x) ≤ 0 (k ≥ 1)`, …
(solved by `cpl` on the epigraph form with the extra variable `t`, start `(x0, 0)`).
-/
namespace CvxVerif.Cert

structure Quad where
  Q : List (List Rat)     -- columns of the full symmetric matrix
  q : List Rat
  r : Rat
deriving Repr

def Quad.grad (f : Quad) (x : List Rat) : List Rat := vadd (matVec f.Q x x.length) f.q
def Quad.val (f : Quad) (x : List Rat) : Rat := (1/2) * dot x (matVec f.Q x x.length) + dot f.q x + f.r

/-- `Σ_k z_k ∇f_k(x)` -/
def gradComb (fs : List Quad) (z x : List Rat) : List Rat :=
  (List.zipWith (fun f zk => (f.grad x).map (zk * ·)) fs z).foldl vadd (x.map fun _ => 0)

structure ResidualsNL where
  rx2 : Rat      -- ‖c + Dfᵀznl + Gᵀzl + Aᵀy‖²   (cp: c replaced by ∇f_0)
  ry2 : Rat      -- ‖Ax − b‖²
  rznl2 : Rat    -- ‖f(x) + snl‖²
  rzl2 : Rat     -- ‖sl + Gx − h‖²_S
  gap : Rat      -- snlᵀznl + ⟨sl, zl⟩
  pcost : Rat
  dcost : Rat
  pres02 : Rat   -- squares of the documented normalisers, from the starting point (x0, s = z = e, y = 0)
  dres02 : Rat
deriving Repr

/-- the identity element of the cone -/
def coneOne (d : Dims) : List Rat :=
  List.replicate d.l 1 ++ (d.q.map fun m => (List.range m).map fun i => if i = 0 then (1 : Rat) else 0).flatten ++
  (d.s.map fun m => (List.range (m * m)).map fun i => if i / m = i % m then (1 : Rat) else 0).flatten

/-- residuals of the `cpl` KKT conditions at `(x, snl, sl, y, znl, zl)` and the normalisers at the start `x0` -/
def residualsCpl (p : Problem) (fs : List Quad) (x0 x snl sl y znl zl : List Rat) : ResidualsNL :=
  let rx := vadd (vadd (vadd (gradComb fs znl x) (matTVecS p.d p.G zl)) (matTVec p.A y)) p.c
  let ry := vsub (matVec p.A x p.b.length) p.b
  let fx := fs.map (·.val x)
  let rznl := vadd fx snl
  let rzl := vsub (vadd sl (matVec p.G x p.h.length)) p.h
  let gap := dot snl znl + sdot p.d sl zl
  let pcost := dot p.c x
  -- start: x0, y = 0, s = z = e
  let e := coneOne p.d
  let enl := fs.map fun _ => (1 : Rat)
  let rx0 := vadd (vadd (gradComb fs enl x0) (matTVecS p.d p.G e)) p.c
  let ry0 := vsub (matVec p.A x0 p.b.length) p.b
  let rznl0 := vadd (fs.map (·.val x0)) enl
  let rzl0 := vsub (vadd e (matVec p.G x0 p.h.length)) p.h
  { rx2 := dot rx rx, ry2 := dot ry ry, rznl2 := dot rznl rznl, rzl2 := sdot p.d rzl rzl, gap := gap, pcost := pcost,
    dcost := pcost + dot y ry + dot znl rznl + sdot p.d zl rzl - gap,
    pres02 := max 1 (dot ry0 ry0 + dot rznl0 rznl0 + sdot p.d rzl0 rzl0), dres02 := max 1 (dot rx0 rx0) }

/-- the documented conditions for status 'optimal' of `cpl` -/
def optimalOkCpl (p : Problem) (fs : List Quad) (x0 x snl sl y znl zl : List Rat) (feastol abstol reltol : Rat) : Bool :=
  let r := residualsCpl p fs x0 x snl sl y znl zl
  decide (r.ry2 + r.rznl2 + r.rzl2 ≤ feastol * feastol * r.pres02) && decide (r.rx2 ≤ feastol * feastol * r.dres02) &&
  snl.all (fun a => decide (0 ≤ a)) && znl.all (fun a => decide (0 ≤ a)) && inCone p.d sl && inCone p.d zl &&
  (decide (r.gap ≤ abstol) || (decide (r.pcost < 0) && decide (r.gap ≤ reltol * (-r.pcost))) ||
   (decide (0 < r.dcost) && decide (r.gap ≤ reltol * r.dcost)))

/-- `cp` with objective `f0` and constraints `fs`: the residuals of the original problem at the returned point (the epigraph multiplier of
`f0 − t ≤ 0` is 1), and the normalisers of the epigraph start `(x0, t = 0)` that `cp` documents through `cpl` -/
def residualsCp (p : Problem) (f0 : Quad) (fs : List Quad) (x0 x snl sl y znl zl : List Rat) : ResidualsNL :=
  let rx := vadd (vadd (vadd (gradComb fs znl x) (matTVecS p.d p.G zl)) (matTVec p.A y)) (f0.grad x)
  let ry := vsub (matVec p.A x p.b.length) p.b
  let rznl := vadd (fs.map (·.val x)) snl
  let rzl := vsub (vadd sl (matVec p.G x p.h.length)) p.h
  let gap := dot snl znl + sdot p.d sl zl
  let pcost := f0.val x
  let e := coneOne p.d
  let enl := fs.map fun _ => (1 : Rat)
  -- epigraph start: f_e(x0, 0) = (f0(x0), f(x0)), all multipliers 1: x-part of rx0 is ∇f0 + Σ∇f_k + Gᵀe, t-part is 1 - 1 = 0
  let rx0 := vadd (vadd (gradComb fs enl x0) (matTVecS p.d p.G e)) (f0.grad x0)
  let ry0 := vsub (matVec p.A x0 p.b.length) p.b
  let rznl0 := vadd (fs.map (·.val x0)) enl
  let rzl0 := vsub (vadd e (matVec p.G x0 p.h.length)) p.h
  { rx2 := dot rx rx, ry2 := dot ry ry, rznl2 := dot rznl rznl, rzl2 := sdot p.d rzl rzl, gap := gap, pcost := pcost,
    dcost := pcost + dot y ry + dot znl rznl + sdot p.d zl rzl - gap,
    pres02 := max 1 (dot ry0 ry0 + (f0.val x0 + 1) * (f0.val x0 + 1) + dot rznl0 rznl0 + sdot p.d rzl0 rzl0), dres02 := max 1 (dot rx0 rx0) }

end CvxVerif.Cert
